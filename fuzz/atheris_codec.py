#!/opt/veriftools/pyvenv/bin/python
"""Coverage-guided fuzzing (atheris / libFuzzer) of the packet and payload codec with the same
oracles as props/c01.py and props/c02.py (reference v4 codec / reference body reader).

    python3-vt fuzz/atheris_codec.py --prop C02 --out RESULT.json [libFuzzer flags: -runs= -seed= ...]

The fuzzer's bytes are decoded into structured arguments (mode, packet type, payload kind, text
built from an adversarial alphabet or raw UTF-8).  A semantic violation (not only a crash) stops
the campaign: the failing case is written to RESULT.json in the replay format of the runner and
the process exits 1.  Exit 0: campaign finished without a violation; RESULT.json then holds the
execution counts.  engineio (from $VERIF_REPO/src) and vk.refmodel are instrumented, so coverage
of either side of the differential guides the search.
"""
import json
import os
import sys

HERE = os.path.dirname(os.path.dirname(os.path.abspath(__file__)))
REPO = os.environ.get('VERIF_REPO', '/repo')
sys.path.insert(0, HERE)
sys.path.insert(0, os.path.join(REPO, 'src'))

import atheris  # noqa: E402

args = sys.argv[1:]
PROP, OUT = 'C02', None
rest = []
i = 0
while i < len(args):
    if args[i] == '--prop':
        PROP = args[i + 1]
        i += 2
    elif args[i] == '--out':
        OUT = args[i + 1]
        i += 2
    else:
        rest.append(args[i])
        i += 1

with atheris.instrument_imports(include=['engineio', 'vk.refmodel']):
    import engineio  # noqa: F401
    from engineio import packet, payload  # noqa: F401
    from vk import refmodel as rm  # noqa: F401

assert os.path.abspath(engineio.__file__).startswith(os.path.abspath(REPO)), engineio.__file__

from vk.runner import Violation  # noqa: E402
from props import c01, c02  # noqa: E402

STATS = {'executions': 0, 'nontrivial': 0, 'modes': {}}
ALPHA = c02.ALPHABET


def text_from(fdp, structured):
    if structured:
        n = fdp.ConsumeIntInRange(0, 48)
        return ''.join(ALPHA[b % len(ALPHA)] for b in fdp.ConsumeBytes(n))
    return fdp.ConsumeUnicodeNoSurrogates(64)


def payload_from(fdp):
    k = fdp.ConsumeIntInRange(0, 5)
    if k == 0:
        return None
    if k == 1:
        return text_from(fdp, True)
    if k == 2:
        return text_from(fdp, False)
    if k == 3:
        return fdp.ConsumeBytes(fdp.ConsumeIntInRange(0, 40))
    if k == 4:
        return bytearray(fdp.ConsumeBytes(fdp.ConsumeIntInRange(0, 40)))
    # a small JSON container built from the bytes
    out = []
    for _ in range(fdp.ConsumeIntInRange(0, 4)):
        t = fdp.ConsumeIntInRange(0, 4)
        out.append([None, fdp.ConsumeBool(), fdp.ConsumeIntInRange(-5, 10 ** 6),
                    text_from(fdp, True), {'k': text_from(fdp, False)}][t])
    return out if fdp.ConsumeBool() else {'a': out}


class Sink:
    """Minimal stand-in for the runner's Ctx: counts cases."""

    def case(self, rep, nontrivial, classes=(), sample_p=None):
        if nontrivial:
            STATS['nontrivial'] += 1

    def count(self, *a, **k):
        pass


SINK = Sink()


def one(data):
    STATS['executions'] += 1
    if STATS['executions'] % 2000 == 0 and OUT:
        with open(OUT + '.tmp', 'w') as f:     # libFuzzer leaves through exit(): no epilogue
            json.dump(STATS, f)
        os.replace(OUT + '.tmp', OUT)
    fdp = atheris.FuzzedDataProvider(data)
    if PROP == 'C02':
        mode = fdp.ConsumeIntInRange(0, 3)
        STATS['modes'][mode] = STATS['modes'].get(mode, 0) + 1
        if mode in (0, 1):
            c02.check_string(text_from(fdp, mode == 0), SINK)
        elif mode == 2:
            s = text_from(fdp, True)
            import urllib.parse
            c02.check_string('d=' + urllib.parse.quote(s, safe=''), SINK)
        else:
            n = fdp.ConsumeIntInRange(0, 19)
            pkts = []
            for _ in range(n):
                d = payload_from(fdp)
                if isinstance(d, str) and '\x1e' in d:
                    d = d.replace('\x1e', '')
                t = 4 if isinstance(d, (bytes, bytearray)) else fdp.ConsumeIntInRange(0, 6)
                pkts.append((t, d))
            c02.check_list(pkts, SINK)
    else:
        mode = fdp.ConsumeIntInRange(0, 1)
        STATS['modes'][mode] = STATS['modes'].get(mode, 0) + 1
        if mode == 0:
            ptype = fdp.ConsumeIntInRange(0, 6)
            flags = [fdp.ConsumeBool() for _ in range(fdp.ConsumeIntInRange(1, 5))]
            c01.check_case(ptype, payload_from(fdp), flags, SINK)
        else:
            c01.check_decode_binary_inputs(fdp.ConsumeBytes(64), SINK)


def finish(code, violation=None):
    if OUT:
        res = dict(STATS)
        if violation is not None:
            res['violation'] = {'signature': violation.signature, 'clause': violation.clause,
                                'trigger': violation.trigger, 'impl': violation.impl,
                                'detail': str(violation.detail)[:2000], 'case': violation.case}
        with open(OUT, 'w') as f:
            json.dump(res, f)
    sys.stdout.flush()
    os._exit(code)


def test_one_input(data):
    try:
        one(data)
    except Violation as v:
        print('ATHERIS-VIOLATION %s' % v.signature)
        finish(1, v)


def main():
    import atexit  # noqa: F401  (atexit does not run under libFuzzer: results are written here)
    atheris.Setup([sys.argv[0]] + rest, test_one_input)
    try:
        atheris.Fuzz()
    except SystemExit:
        pass
    finish(0)


if __name__ == '__main__':
    main()
