"""C01 - Packet encoding is the Engine.IO v4 wire form and decoding inverts it."""
import itertools
import json

from hypothesis import strategies as st

from vk.runner import Violation, run_given
from vk import refmodel as rm

ID = 'C01'
LEVEL = 'exploration'
RULE = ('Hypothesis draws (packet type 0..6, payload, history of 1..6 encode(b64) flags); payloads: '
        'none, arbitrary Unicode text, JSON look-alike text (dumped JSON values with random '
        'surrounding whitespace, signed/zero-padded/100+-digit digit strings, exponents, NaN, '
        'Infinity, true, null, non-ASCII digits), text starting with b, bytes and bytearray, '
        'nested dict/list. Plus an exhaustive catalogue product (7 types x catalogue x all flag '
        'sequences up to length 3/4). Oracle: independent v4 reference encoder/decoder. '
        'Non-trivial: non-empty payload and (binary | container | look-alike text | history '
        'mixing both channel kinds). Distinct: hash of (type, payload, flags). A coverage-guided atheris campaign (fuzz/atheris_codec.py) runs the same check on fuzzer-built cases; its executions are counted, its non-trivial cases are counted but not de-duplicated.')
ASSUMPTIONS = ['stdlib json and base64 are correct (used by the reference model)',
               'ints inside containers are below 10^100 (documented parse guard) - longer ones '
               'are generated but only totality is required']

IMPL = 'codec'


def V(clause, trigger, detail, case):
    return Violation(ID, IMPL, clause, trigger, detail, case)


# ---------------------------------------------------------------------------------------------
# generators
# ---------------------------------------------------------------------------------------------
json_leaf = st.one_of(
    st.none(), st.booleans(),
    st.integers(min_value=-10**99, max_value=10**99),
    st.integers(min_value=-5, max_value=5),
    st.floats(allow_nan=True, allow_infinity=True),
    st.text(max_size=8),
    st.sampled_from(['\x1e', '"', '\\', ' ', 'b', '4', '\U0001f600']))
json_value = st.recursive(
    json_leaf,
    lambda ch: st.one_of(st.lists(ch, max_size=4),
                         st.dictionaries(st.text(max_size=5), ch, max_size=4)),
    max_leaves=12)
container = st.one_of(st.lists(json_value, max_size=5),
                      st.dictionaries(st.text(max_size=6), json_value, max_size=5))
ws = st.text(alphabet=' \t\n\r', max_size=2)


@st.composite
def lookalike(draw):
    kind = draw(st.integers(0, 8))
    if kind == 8:
        # almost JSON: a raw control character inside a quoted part (RFC 8259 forbids it, so the
        # text is not a JSON literal and stays text)
        c = draw(st.sampled_from(['\t', '\n', '\r', '\x00', '\x1f', '\x0b', '\x7f']))
        a, b = draw(st.text(alphabet='ab ', max_size=3)), draw(st.text(alphabet='ab ', max_size=3))
        return draw(st.sampled_from(['"%s%s%s"', '{"k":"%s%s%s"}', '["%s%s%s"]', '{"%s%s%s":1}',
                                     '[1,"%s%s%s",2]'])) % (a, c, b)
    if kind == 0:
        v = draw(json_value)
        compact = draw(st.booleans())
        s = json.dumps(v, separators=(',', ':')) if compact else json.dumps(v)
        return draw(ws) + s + draw(ws)
    if kind == 1:
        sign = draw(st.sampled_from(['', '-', '+']))
        n = draw(st.sampled_from([1, 2, 5, 17, 99, 100, 101, 102, 300]))
        digits = draw(st.text(alphabet='0123456789', min_size=n, max_size=n))
        return sign + digits
    if kind == 2:
        return draw(st.sampled_from([
            'NaN', 'Infinity', '-Infinity', 'true', 'false', 'null', ' null', 'nul', 'True',
            'None', '1e5', '1E400', '-0', '0.0', '1.', '.5', '00', '01', '0x10', '1_000',
            '٣', '١٢', '１', '1٣', '""', '"', '"a', '{}', '[]', '{', '[',
            '[1,]', '{"a":}', ' ', '\n', 'b', 'bAQID', 'b64', '4', '44', '4{"a":1}']))
    if kind == 3:
        return 'b' + draw(st.text(max_size=10))
    if kind == 4:
        f = draw(st.floats(allow_nan=False, allow_infinity=False))
        return repr(f)
    if kind == 5:
        return json.dumps(draw(st.text(max_size=10)))
    if kind == 6:
        d = draw(st.integers(0, 9))
        return str(d) + draw(st.text(max_size=6))
    return draw(st.text(alphabet='0123456789eE.+-', min_size=1, max_size=8))


big_sizes = st.sampled_from([255, 256, 257, 1023, 1024, 1025, 1026, 2048, 3071, 3072, 3073, 4096,
                             5000, 8191, 8193, 16385, 65537])
# (large values are built by repeating a small drawn chunk: Hypothesis caps generated sizes)
big_binary = st.tuples(big_sizes, st.binary(min_size=1, max_size=7)).map(
    lambda t: (t[1] * (t[0] // len(t[1]) + 1))[:t[0]])
big_text = st.tuples(big_sizes, st.text(alphabet=st.sampled_from(list('ab0"{[ \u00e9') + ['\x1e']),
                                        min_size=1, max_size=7)).map(
    lambda t: (t[1] * (t[0] // len(t[1]) + 1))[:t[0]])
payload = st.one_of(
    st.none(),
    st.text(max_size=30),
    lookalike(),
    st.binary(max_size=40),
    st.binary(max_size=40).map(bytearray),
    container,
    big_binary, big_binary.map(bytearray), big_text,
)
flags = st.lists(st.booleans(), min_size=1, max_size=6)
case_st = st.tuples(st.integers(0, 6), payload, flags)


def classify(ptype, data):
    cls = []
    if data is None:
        cls.append('none')
    elif rm.is_binary(data):
        cls.append('binary')
    elif isinstance(data, str):
        allowed = rm.ref_decode_text_payload(data)
        if data == '':
            cls.append('empty-text')
        elif not (len(allowed) == 1 and isinstance(allowed[0], str) and allowed[0] == data):
            cls.append('text-decoding-as-json')
        elif data[:1] in '0123456789-+b' or data.strip() != data:
            cls.append('lookalike-staying-text')
        else:
            cls.append('plain-text')
    else:
        cls.append('container')
    return cls


# ---------------------------------------------------------------------------------------------
# the check for one case
# ---------------------------------------------------------------------------------------------
def check_case(ptype, data, flagseq, ctx=None):
    from engineio import packet
    rep = {'type': ptype, 'data': rm.tag(data), 'flags': [bool(f) for f in flagseq]}
    binary = rm.is_binary(data)
    bigint = (not binary) and not isinstance(data, str) and rm.contains_big_int(data)

    # clause 3a: binary only for MESSAGE
    if binary and ptype != 4:
        try:
            packet.Packet(ptype, data=data)
        except ValueError:
            if ctx:
                ctx.case(rep, True, ['binary-nonmessage-refused'])
            return
        raise V('binary-accepted-for-non-message', 'type=%d' % ptype,
                'Packet(%d, data=<binary>) did not raise ValueError' % ptype, rep)

    pkt = packet.Packet(ptype, data=data)
    kinds = set()
    encs = {}
    for i, b64 in enumerate(flagseq):
        got = pkt.encode(b64=b64)
        why = rm.ref_encode_check(ptype, data, b64, got)
        if why:
            prev = sorted(set(flagseq[:i]))
            raise V('encode-not-v4-form',
                    '%s|call=%s|after=%s' % (classify(ptype, data)[0],
                                             'b64' if b64 else 'raw',
                                             ','.join('b64' if p else 'raw' for p in prev)
                                             or 'first'),
                    'encode(b64=%s) call #%d returned %r: %s' % (b64, i + 1, got, why), rep)
        kinds.add(b64)
        encs[b64] = got

    if bigint:
        # outside the stated domain (documented guard): only require decode not to crash oddly
        for b64, enc in encs.items():
            try:
                packet.Packet(encoded_packet=enc)
            except Exception as e:  # noqa
                raise V('decode-crashed', 'bigint-container', repr(e), rep)
        if ctx:
            ctx.case(rep, False, ['bigint-container'])
        return

    # clause 2: decoding inverts
    for b64, enc in encs.items():
        try:
            dec = packet.Packet(encoded_packet=enc)
        except Exception as e:
            raise V('decode-raised', classify(ptype, data)[0],
                    'decoding %r raised %r' % (enc, e), rep)
        if binary:
            if dec.packet_type != 4 or not dec.binary or \
                    not isinstance(dec.data, (bytes, bytearray)) or bytes(dec.data) != bytes(data):
                raise V('binary-roundtrip', 'b64' if b64 else 'raw',
                        'decoded to type=%r binary=%r data=%r' % (
                            dec.packet_type, dec.binary, dec.data), rep)
            continue
        if dec.packet_type != ptype:
            raise V('type-roundtrip', classify(ptype, data)[0],
                    'type %d decoded as %r' % (ptype, dec.packet_type), rep)
        if dec.binary:
            raise V('binary-flag-on-text', classify(ptype, data)[0], 'binary=True', rep)
        if data is None:
            allowed = ['']
        elif isinstance(data, str):
            allowed = rm.ref_decode_text_payload(data)
            if rm.text_has_big_int(data) and data not in allowed:
                allowed = [data] + allowed
        else:
            allowed = [data]
        if not any(rm.jeq(dec.data, a) for a in allowed):
            raise V('payload-roundtrip', classify(ptype, data)[0],
                    'payload %r decoded as %r, expected %r' % (data, dec.data, allowed[0]), rep)

    if ctx:
        cls = classify(ptype, data)
        nonempty = data is not None and (len(data) > 0)
        mixed = len(kinds) == 2
        nt = nonempty and (cls[0] in ('binary', 'container', 'text-decoding-as-json',
                                      'lookalike-staying-text') or mixed)
        if mixed:
            cls.append('history-mixing-channels')
        ctx.case(rep, nt, cls)


def check_decode_binary_inputs(raw, ctx=None):
    """clause 3b: decoding any bytes / 'b...' input never yields another type."""
    from engineio import packet
    import base64
    rep = {'decode_bytes': rm.tag(raw)}
    for enc in (raw, bytearray(raw), 'b' + base64.b64encode(raw).decode()):
        try:
            dec = packet.Packet(encoded_packet=enc)
        except Exception as e:      # noqa
            raise V('decode-raised', 'binary-input|' + type(enc).__name__ + (
                '|empty' if not raw else ''), 'decoding %r raised %r' % (enc, e), rep)
        if dec.packet_type != 4 or not dec.binary or bytes(dec.data) != raw:
            raise V('binary-decode-other-type', type(enc).__name__,
                    'decoded %r as type=%r binary=%r data=%r' % (
                        enc, dec.packet_type, dec.binary, dec.data), rep)
    if ctx:
        ctx.case(rep, len(raw) > 0, ['decode-binary-input'])


CATALOGUE = [
    None, '', 'a', 'hello', '0', '1', '-1', '12', '007', '1.5', '1e3', 'NaN', 'Infinity', 'true',
    '"a\tb"', '{"k":"v\x1fw"}', '["x\ry"]',
    'null', '"x"', '{"a":1}', '[1,2]', ' [1] ', '{', 'b', 'bQQ==', 'b64', '4', '\x1e', '"', '\\',
    'é', ' ', '\U0001f600', '9' * 100, '9' * 101, '٣', ' 5', '{}', '[]',
    b'', b'\x00', b'a', b'4abc', b'\x04\x01\x02', b'\xff\xfe\xfd\xfc', bytearray(b'xyz'),
    bytearray(b''), {}, [], {'a': 'b'}, [1, 'a', None, True, 1.5], {'a': {'b': [1, 2, {'c': 'd'}]}},
    {'\x1e': '\x1e'}, ['é', ' '], [float('inf')], {'k': 10 ** 99}, [[[]]],
]


def run_shard(ctx):
    quick = ctx.tier == 'quick'
    # exhaustive catalogue x flag sequences, sharded by index
    maxlen = 3 if quick else 4
    seqs = [s for n in range(1, maxlen + 1) for s in itertools.product([False, True], repeat=n)]
    idx = 0
    for ptype in range(7):
        for data in CATALOGUE:
            for s in seqs:
                idx += 1
                if idx % ctx.nshards != ctx.shard:
                    continue
                try:
                    check_case(ptype, data, list(s), ctx)
                except Violation as v:
                    if ctx.is_known(v):
                        ctx.note_known(v)
                    elif v.signature not in ctx.ignored:
                        ctx.add_violation(v)
    ctx.count('catalogue-product-cases', 0)

    def body(c):
        check_case(c[0], c[1], c[2], ctx)

    run_given(ctx, case_st, body, max_examples=3000 if quick else 60000)
    run_given(ctx, st.binary(max_size=64), lambda raw: check_decode_binary_inputs(raw, ctx),
              max_examples=300 if quick else 5000)
    # coverage-guided campaign (atheris) with the same oracles: every shard its own seed in
    # the thorough tier, one short campaign in the quick tier
    from vk import athfuzz
    if not quick:
        athfuzz.campaign(ctx, ID, 150000)
    elif ctx.shard == 0:
        athfuzz.campaign(ctx, ID, 6000)


def replay(case, ctx):
    if 'decode_bytes' in case:
        check_decode_binary_inputs(rm.untag(case['decode_bytes']))
    else:
        check_case(case['type'], rm.untag(case['data']), case['flags'])
