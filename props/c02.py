"""C02 - Payload framing is separator-exact, order-preserving and bounded."""
import itertools
import time
import urllib.parse

from hypothesis import strategies as st

from vk.runner import Violation, run_given
from vk import refmodel as rm
from props.c01 import container

ID = 'C02'
LEVEL = 'exploration'
RULE = ('(a) Hypothesis draws packet lists of length 0..20 mixing text (no U+001E), JSON (strings '
        'may hold U+001E) and binary packets: encode must equal the U+001E-join of the reference '
        'text-channel encodings, decode(encode) must return the same (type, payload) sequence for '
        '<=16 packets and raise for more, the d= form (quote and quote_plus) must decode alike. '
        '(b) every string up to length L over an adversarial alphabet (type digits, b, d, =, &, %, '
        'U+001E, quote, backslash, brackets, braces, colon, comma, A, -, Arabic-Indic three, space) '
        'is decoded and compared with the reference reader: certainly-invalid bodies must raise, '
        'well-formed ones must equal the reference, the rest must return or raise an Exception. '
        '(c) longer random strings from the same alphabet and size templates (deep nesting, long '
        'digit runs, huge packet counts) for totality / no hang. Non-trivial: >=2 packets of >=2 '
        'kinds, or a string containing a separator, b, quote or bracket. Distinct: hash of input. (d) a coverage-guided atheris campaign (fuzz/atheris_codec.py) runs the same checks on fuzzer-built strings, d= forms and lists; its executions are counted, its non-trivial cases counted but not de-duplicated.')
ASSUMPTIONS = ['stdlib json, base64 and urllib.parse are correct (used by the reference reader)',
               'malformed base64 and non-ASCII digits are open cells (totality only)']
IMPL = 'codec'
ALPHABET = ['0', '4', '6', '7', '9', 'b', 'd', '=', '&', '%', '\x1e', '"', '\\', '[', ']', '{', '}',
            ':', ',', 'A', '-', '٣', ' ', '1']


def V(clause, trigger, detail, case):
    return Violation(ID, IMPL, clause, trigger, detail, case)


def kind(data):
    if data is None:
        return 'none'
    if rm.is_binary(data):
        return 'binary'
    if isinstance(data, str):
        return 'text'
    return 'json'


# -- (a) packet lists ---------------------------------------------------------------------------
text_nosep = st.text(alphabet=st.characters(blacklist_characters='\x1e', codec='utf-8'),
                     max_size=12)
pkt_st = st.one_of(
    st.tuples(st.integers(0, 6), st.none()),
    st.tuples(st.integers(0, 6), text_nosep),
    st.tuples(st.integers(0, 6), container),
    st.tuples(st.just(4), st.binary(max_size=12)),
    st.tuples(st.just(4), st.sampled_from([1023, 1024, 1025, 3073, 5000]).flatmap(
        lambda n: st.binary(min_size=n, max_size=n))),
    st.tuples(st.just(4), st.sampled_from(['', 'b', 'bAAA', 'd=', '=', '%1e', '+', ' ', '&d=4x'])),
)
list_st = st.lists(pkt_st, min_size=0, max_size=20)


def check_list(pkts, ctx=None):
    from engineio import packet, payload
    rep = {'packets': [[t, rm.tag(d)] for t, d in pkts]}
    objs = [packet.Packet(t, data=d) for t, d in pkts]
    enc = payload.Payload(packets=objs).encode()
    want = rm.SEP.join(rm.ref_encode(t, d, True) for t, d in pkts)
    if enc != want:
        # container encodings may differ in ensure_ascii / key order: compare piecewise
        ok = isinstance(enc, str) and len(enc.split(rm.SEP)) >= len(pkts) and not any(
            rm.ref_encode_check(t, d, True, piece)
            for (t, d), piece in zip(pkts, split_known(enc, pkts)))
        if not ok:
            raise V('encode-not-separator-join', 'n=%d' % len(pkts),
                    'encode() = %r, expected %r' % (enc, want), rep)
    big = any(rm.contains_big_int(d) for _, d in pkts if not isinstance(d, (str, bytes, bytearray))
              and d is not None)
    forms = [('plain', enc)]
    if enc:
        forms.append(('d=quote', 'd=' + urllib.parse.quote(enc, safe='')))
        forms.append(('d=quote_plus', 'd=' + urllib.parse.quote_plus(enc)))
    for name, body in forms:
        try:
            dec = payload.Payload(encoded_payload=body)
            raised = None
        except Exception as e:      # noqa
            dec, raised = None, e
        if len(pkts) > 16:
            if raised is None:
                raise V('over-limit-body-accepted', '%s|n=%d' % (name, len(pkts)),
                        'a body of %d packets was decoded' % len(pkts), rep)
            continue
        if raised is not None:
            raise V('valid-body-refused', '%s|n=%d' % (name, len(pkts)),
                    'decoding %r raised %r' % (body, raised), rep)
        if len(dec.packets) != len(pkts):
            raise V('packet-count-changed', name,
                    '%d packets encoded, %d decoded' % (len(pkts), len(dec.packets)), rep)
        if big:
            continue
        for i, ((t, d), p) in enumerate(zip(pkts, dec.packets)):
            if rm.is_binary(d):
                ok = p.packet_type == 4 and p.binary and bytes(p.data) == bytes(d)
            else:
                if d is None:
                    allowed = ['']
                elif isinstance(d, str):
                    allowed = rm.ref_decode_text_payload(d)
                    if rm.text_has_big_int(d) and d not in allowed:
                        allowed = [d] + allowed
                else:
                    allowed = [d]
                ok = p.packet_type == t and not p.binary and any(rm.jeq(p.data, a) for a in allowed)
            if not ok:
                raise V('packet-changed-or-reordered', '%s|%s' % (name, kind(d)),
                        'packet #%d (%d, %r) decoded as (%r, %r)' % (
                            i, t, d, p.packet_type, p.data), rep)
    # decoding is a function of the body alone: what a consumer did to the packets of an earlier
    # decode (handlers mutate their data) does not show in a later one
    if len(pkts) <= 16 and not big and any(isinstance(d, (dict, list)) for _, d in pkts):
        first = payload.Payload(encoded_payload=enc)
        for p in first.packets:
            if isinstance(p.data, dict):
                p.data['__touched__'] = True
            elif isinstance(p.data, list):
                p.data.append('__touched__')
        again = payload.Payload(encoded_payload=enc)
        for i, ((t, d), p) in enumerate(zip(pkts, again.packets)):
            if isinstance(d, (dict, list)) and not rm.jeq(p.data, d):
                raise V('decode-depends-on-earlier-decodes', kind(d),
                        'packet #%d decoded as %r after the data of an earlier decode of the same '
                        'body was modified (expected %r)' % (i, p.data, d), rep)
    if ctx:
        kinds = set(kind(d) for _, d in pkts)
        cls = ['list-n=%s' % ('0' if not pkts else '1' if len(pkts) == 1 else
                              '2..16' if len(pkts) <= 16 else '17+')]
        cls += ['has-' + k for k in sorted(kinds)]
        ctx.case(rep, len(pkts) >= 2 and len(kinds) >= 2, cls)


def split_known(enc, pkts):
    # JSON strings escape U+001E, text packets exclude it: a plain split is exact
    return enc.split(rm.SEP)


# -- (b)/(c) arbitrary strings ------------------------------------------------------------------------
def check_string(s, ctx=None, slow_s=5.0):
    from engineio import payload
    rep = {'input': s if len(s) <= 200 else {'template': s[:40], 'len': len(s)}}
    ref = rm.ref_decode_body(s)
    t0 = time.perf_counter()
    from vk import watchdog
    if watchdog.STATE['tripped']:
        return          # a decode already failed to return in this process: stop exploring
    try:
        watchdog.arm(60)
        try:
            dec = payload.Payload(encoded_payload=s)
        finally:
            watchdog.disarm()
        raised = None
    except watchdog.BusyLoop:
        raise V('decode-too-slow', 'len=%d|no-return' % len(s),
                'decoding did not return within 60 s of wall-clock time', rep)
    except Exception as e:          # noqa  (BaseException = crash, propagates as harness error)
        dec, raised = None, e
    dt = time.perf_counter() - t0
    if dt > slow_s:
        again = []
        for _ in range(2):
            t0 = time.perf_counter()
            try:
                payload.Payload(encoded_payload=s)
            except Exception:       # noqa
                pass
            again.append(time.perf_counter() - t0)
        if all(x > slow_s for x in again):
            raise V('decode-too-slow', 'len=%d' % len(s),
                    'decoding took %.1fs, %.1fs, %.1fs' % (dt, again[0], again[1]), rep)
    if ref[0] == 'invalid':
        if raised is None:
            raise V('invalid-body-accepted', bucket(ref[1]),
                    '%r decoded to %r although %s' % (
                        s[:80], [(p.packet_type, p.data) for p in dec.packets][:6], ref[1]), rep)
    elif ref[0] == 'ok':
        if raised is not None:
            raise V('valid-body-refused', 'string', 'decoding %r raised %r' % (s[:80], raised), rep)
        if len(dec.packets) != len(ref[1]):
            raise V('packet-count-changed', 'string',
                    '%r: %d packets, reference %d' % (s[:80], len(dec.packets), len(ref[1])), rep)
        for i, (p, (t, allowed, binary)) in enumerate(zip(dec.packets, ref[1])):
            if p.packet_type != t or bool(p.binary) != binary or \
                    not any(rm.jeq(p.data, a) for a in allowed):
                raise V('packet-changed-or-reordered', 'string|' + ('binary' if binary else 'text'),
                        '%r: packet #%d decoded as (%r, %r), reference (%r, %r)' % (
                            s[:80], i, p.packet_type, p.data, t, allowed[0]), rep)
    if ctx:
        nt = any(c in s for c in '\x1eb"[]{}')
        ctx.case(rep, nt, ['string-ref-' + ref[0],
                           'string-raised' if raised is not None else 'string-decoded'])


def bucket(why):
    for k in ('empty', 'type digit', 'more than', 'form'):
        if k in why:
            return k.replace(' ', '-')
    return 'other'


def templates(quick):
    n = 20000 if quick else 400000
    yield '4' + '[' * n
    yield '4' + '{"a":' * (n // 5)
    yield '4' + '9' * n
    yield '4' + '-' + '9' * n
    yield '4' + '1' * 50 + '.' + '7' * n
    yield '4' + '1e' + '9' * 400
    yield rm.SEP * n
    yield ('4a' + rm.SEP) * n
    yield ('6' + rm.SEP) * 15 + '6'
    yield ('6' + rm.SEP) * 16 + '6'
    yield 'b' + 'A' * n
    yield 'b' + '=' * n
    yield 'd=' + '%1e' * n
    yield 'd=' + '4a%1E' * 15 + '4b'
    yield 'd=' + '4a%1E' * 16 + '4b'
    yield 'd=4a&d=4b'
    yield 'd=' + '&' * n
    yield '4"' + '\\' * n
    yield '4' + '"' * n
    yield '4' + ' ' * n + '1'
    yield '٣' * n


# -- (d) the same law through a server: a body POSTed plain and as the form field d= ----------
form_case = st.fixed_dictionaries({
    'server_form': st.just(True),
    'impl': st.sampled_from(['thread', 'async']),
    'texts': st.lists(st.lists(st.sampled_from(list('ab+%&= 41') + ['%41', '%2B', 'é']),
                               min_size=1, max_size=8).map(''.join), min_size=1, max_size=4),
    'ctype': st.sampled_from(['application/x-www-form-urlencoded',
                              'application/x-www-form-urlencoded; charset=UTF-8',
                              'text/plain;charset=UTF-8', None]),
})


def check_server_form(case, ctx=None):
    """MESSAGE packets with the given texts, POSTed to a live polling session once as a plain
    body and once as d=<form-encoded body> (what a JSONP client sends, Content-Type included):
    the message handler sees the same payloads both times."""
    import urllib.parse
    from vk.machine import Exec
    rep = dict(case)
    texts = ['x' + t for t in case['texts']]        # (never JSON, never a type digit alone)
    body = rm.SEP.join('4' + t for t in texts)
    got = {}
    for form in ('plain', 'd='):
        ex = Exec(case['impl'], {'http_compression': False, 'async_handlers': False})
        try:
            ex.do({'op': 'open', 'transport': 'polling'})
            sid = ex.sid_of(ex.sessions[0])
            w = ex.world
            hdrs = [('Host', 'localhost')]
            if form == 'd=':
                wire = ('d=' + urllib.parse.quote(body, safe='')).encode()
                if case['ctype']:
                    hdrs.append(('Content-Type', case['ctype']))
                q = 'transport=polling&EIO=4&j=0&sid=' + sid
            else:
                wire = body.encode()
                q = 'transport=polling&EIO=4&sid=' + sid
            r = w.http('POST', q, headers=hdrs, body=wire)
            w.settle()
            got[form] = (r.status if r.done else None,
                         [a for (_, e, _, a) in w.app_log.events if e == 'message'])
        finally:
            ex.close()
    if got['plain'] != (200, texts):
        raise Violation(ID, case['impl'], 'server-plain-body-misread', 'post',
                        'plain body of %r: status %s, message events %r' % (
                            texts, got['plain'][0], got['plain'][1]), rep)
    if got['d='] != got['plain']:
        raise Violation(ID, case['impl'], 'packet-changed-or-reordered', 'd=via-server|%s' % (
            'form-content-type' if case['ctype'] and 'form' in case['ctype'] else 'other'),
            'POSTed as d=: status %s, message events %r; as a plain body: %r' % (
                got['d='][0], got['d='][1], got['plain'][1]), rep)
    if ctx:
        ctx.case(rep, any(c in ''.join(texts) for c in '+%&'), ['d=-through-a-server',
                                                               case['impl']])


def run_shard(ctx):
    quick = ctx.tier == 'quick'
    run_given(ctx, form_case, lambda c: check_server_form(c, ctx),
              max_examples=25 if quick else 400)
    # (b) exhaustive strings, sharded by index
    L = 4 if quick else 5
    alpha = ALPHABET[:20] if quick else ALPHABET
    idx = 0
    for n in range(0, L + 1):
        for tup in itertools.product(alpha, repeat=n):
            idx += 1
            if idx % ctx.nshards != ctx.shard:
                continue
            try:
                check_string(''.join(tup), ctx)
            except Violation as v:
                if ctx.is_known(v):
                    ctx.note_known(v)
                elif v.signature not in ctx.ignored:
                    ctx.add_violation(v)
    ctx.exhaustive = False      # the exhaustive part is one of three generators
    ctx.notes.append('exhaustive over all strings of length <= %d over %d symbols' % (L, len(alpha)))
    # (c) templates (shard 0 only) and random longer strings
    if ctx.shard == 0:
        for t in templates(quick):
            try:
                check_string(t, ctx)
            except Violation as v:
                if not ctx.is_known(v) and v.signature not in ctx.ignored:
                    ctx.add_violation(v)
    long_st = st.text(alphabet=st.sampled_from(ALPHABET), min_size=L + 1, max_size=40)
    run_given(ctx, long_st, lambda s: check_string(s, ctx), max_examples=1500 if quick else 40000)
    # (a) lists
    run_given(ctx, list_st, lambda l: check_list(l, ctx), max_examples=1500 if quick else 30000)
    # coverage-guided campaign (atheris) with the same oracles: every shard its own seed in
    # the thorough tier, one short campaign in the quick tier
    from vk import athfuzz
    if not quick:
        athfuzz.campaign(ctx, ID, 150000)
    elif ctx.shard == 0:
        athfuzz.campaign(ctx, ID, 6000)


def replay(case, ctx):
    if case.get('server_form'):
        return check_server_form(case)
    if 'packets' in case:
        check_list([(t, rm.untag(d)) for t, d in case['packets']])
    else:
        inp = case['input']
        if isinstance(inp, dict):
            raise Violation(ID, IMPL, 'replay-not-stored', 'template', 'template input not stored')
        check_string(inp)
