"""C03 - Server-to-client messages: exactly once, in order, one transport, across upgrade."""
from vk.runner import Violation
from vk.histories import history_property, run_trace
from vk.machine import find_tag
from vk import refmodel as rm
from hypothesis import strategies as st

ID = 'C03'
LEVEL = 'exploration'
RULE = ('Hypothesis draws a server configuration and a history (<=30/60 actions) of opens, polls '
        '(pending, late, overlapping), application send() calls with uniquely tagged text/JSON/'
        'binary payloads (singly or in bursts of 15..40), client messages that the message handler answers itself with a send() before returning, polling clients that are plain, JSONP (j=<n>, d= posts) or ask for compressed answers, every prefix of the probe handshake (correct and wrong frames, closes, '
        'faults), pongs, clock advances relative to the next deadline, with or without settling '
        'between actions (thread world: scheduler picks drawn too); executed against the real '
        'Server (baton-scheduled threads) or AsyncServer (virtual-time loop). Oracle: per session '
        'the tagged MESSAGE sequence received is duplicate-free, in send order, free of foreign '
        'tags, each poll returns everything queued, polls during an upgrade return only NOOP, and '
        'after drain every message sent to a session that never ended has arrived. Non-trivial: a '
        'message sent while an upgrade socket was open, or >=2 overlapping polls, or a send racing '
        'a pending poll. Distinct: hash of (impl, config, abbreviated action list, observations).')
ASSUMPTIONS = ['VQueue/VEvent/VThread model queue.Queue/threading.Event/Thread (cooperative '
               'switching at blocking points only)',
               'VLoop runs asyncio callbacks in FIFO order at exact virtual deadlines',
               'the WSGI/ASGI WebSocket fakes follow the simple-websocket / ASGI contracts']


def V(ex, clause, trigger, detail):
    return Violation(ID, ex.impl, clause, trigger, detail)


def received_msgs(s):
    out = []
    for i, (t, via, pt, payload, where) in enumerate(s.received):
        if pt == 4:
            out.append({'t': t, 'via': via, 'tag': find_tag(payload), 'payload': payload,
                        'where': where, 'i': i})
    return out


def upgrade_windows(s):
    """[(t_begin, t_end|None, attempt)] during which an upgrade handshake was open."""
    out = []
    for att in s.upg_attempts:
        conn = att['conn']
        if not conn.accepted or att.get('had_main'):
            continue
        end = None
        for cand in (att.get('promoted'), getattr(conn, 't_end', None),
                     getattr(conn, 't_peer_closed', None)):
            if cand is not None:
                end = cand if end is None else min(end, cand)
        out.append((att['t'], end, att))
    return out


def session_phase(ex, s):
    if s.main_ws is not None and s.kind == 'websocket':
        return 'ws-first'
    if s.main_ws is not None:
        return 'upgraded'
    return 'polling'


def monitor(ex, final):
    for s in ex.sessions:
        sent = {x['tag']: x for x in s.app_sent if x['tag'] is not None}
        sent_order = [x['tag'] for x in s.app_sent if x['tag'] is not None]
        got_all = received_msgs(s)
        # empty binary messages carry no tag: they are counted
        n_empty_sent = sum(1 for x in s.app_sent if x['tag'] is None and x['data'] == b'')
        empties = [g for g in got_all if g['tag'] is None and g['payload'] == b'']
        if len(empties) > n_empty_sent:
            raise V(ex, 'duplicate-delivery' if n_empty_sent else 'unknown-message-delivered',
                    'empty-binary', 'session %d received %d empty binary messages, %d were sent' % (
                        s.ord, len(empties), n_empty_sent))
        for g in empties:
            if g['via'] == 'upg':
                raise V(ex, 'message-on-unfinished-upgrade-socket', 'upg',
                        'session %d: an empty binary message was written to an upgrade socket '
                        'whose handshake had not completed' % s.ord)
        got = [g for g in got_all if not (g['tag'] is None and g['payload'] == b'')]
        seen = {}
        for g in got:
            tag = g['tag']
            if tag is None or not tag.startswith('S'):
                raise V(ex, 'unknown-message-delivered', g['via'],
                        'session %d received MESSAGE %r that no send() produced' % (
                            s.ord, g['payload']))
            if tag not in sent:
                raise V(ex, 'foreign-message-delivered', g['via'],
                        'session %d received %s which was sent to another session' % (s.ord, tag))
            if not rm.jeq(g['payload'], sent[tag]['data']) and not (
                    isinstance(sent[tag]['data'], (bytes, bytearray)) and
                    bytes(sent[tag]['data']) == g['payload']):
                raise V(ex, 'payload-changed', type(sent[tag]['data']).__name__,
                        'session %d: %s sent as %r arrived as %r' % (
                            s.ord, tag, sent[tag]['data'], g['payload']))
            if tag in seen:
                raise V(ex, 'duplicate-delivery', '%s+%s' % (seen[tag]['via'], g['via']),
                        'session %d received %s twice (%s at %.3f, %s at %.3f)' % (
                            s.ord, tag, seen[tag]['via'], seen[tag]['t'], g['via'], g['t']))
            seen[tag] = g
            if g['via'] == 'upg':
                raise V(ex, 'message-on-unfinished-upgrade-socket', 'upg',
                        'session %d: %s written to an upgrade socket whose handshake had not '
                        'completed' % (s.ord, tag))
        # order: if b's send() had returned when a's send() was issued, a may not arrive first
        for i in range(len(got)):
            for j in range(i + 1, len(got)):
                a, b = got[i], got[j]
                a_first = (a['t'] < b['t']) or (a['t'] == b['t'] and a['where'] is b['where'])
                if a_first and b['tag'] in sent[a['tag']]['after']:
                    raise V(ex, 'reordered', '%s/%s' % (a['via'], b['via']),
                            'session %d: %s (sent first) arrived after %s' % (
                                s.ord, b['tag'], a['tag']))
        for p in s.polls:
            if not (p.done and p.status == 200 and getattr(p, 'packets', None) is not None):
                continue
            types = [pk[0] for pk in p.packets]
            if p._upg_state == 'open':
                # started (and, being settled at once, answered) while the handshake was open
                if p._immediate and any(t != 6 for t in types):
                    raise V(ex, 'poll-during-upgrade-not-noop', ','.join(map(str, types)),
                            'session %d: a poll started while the upgrade handshake was open '
                            'returned packet types %s' % (s.ord, types))
                continue
            if types and all(t == 6 for t in types):
                continue
            # a poll answer holds everything queued at that moment - up to the 16 packets one
            # payload may carry (C02); what did not fit comes with the next poll, in order
            if len(types) == 16:
                continue
            for tag in p._sent_done:
                if tag is None:
                    continue
                g = seen.get(tag)
                if g is not None and g['t'] <= p.t_end:
                    continue
                if _session_ended_by(ex, s, p.t_end):
                    continue
                x = sent[tag]
                if any(b <= p.t_end and (e is None or e >= x['t']) for b, e, _ in
                       upgrade_windows(s)):
                    continue        # an upgrade window overlapped: it may travel on either side
                raise V(ex, 'poll-did-not-return-everything-queued',
                        'missing-after-%d-packets' % len(types),
                        'session %d: %s was queued before the poll started but the answer '
                        '%s does not hold it' % (s.ord, tag, types))
        if final:
            check_complete(ex, s, seen)


def _session_ended_by(ex, s, t):
    return any(e == 'disconnect' and te <= t for te, e, _ in ex.events_for(s))


def check_complete(ex, s, seen):
    if s.vanished or not s.expect_accept:
        return
    evs = ex.events_for(s)
    if not any(e == 'connect' for _, e, _ in evs):
        return
    if any(e == 'disconnect' for _, e, _ in evs):
        return
    if s.causes:
        return
    from props.c05 import explicit_causes
    if explicit_causes(ex, s):
        return          # the client itself closed or broke the session (CLOSE, protocol error)
    # the client kept reading and the session never ended: everything must have arrived
    n_empty = sum(1 for x in s.app_sent if x['tag'] is None and x['data'] == b'' and
                  x['call'].done and x['call'].exc is None)
    got_empty = sum(1 for g in received_msgs(s) if g['tag'] is None and g['payload'] == b'')
    if got_empty < n_empty:
        raise V(ex, 'message-lost', session_phase(ex, s) + '|empty-binary',
                'session %d never ended and kept reading, but only %d of %d empty binary messages '
                'arrived' % (s.ord, got_empty, n_empty))
    for x in s.app_sent:
        c = x['call']
        if not c.done or c.exc is not None or x['tag'] is None:
            continue
        if x['tag'] not in seen:
            raise V(ex, 'message-lost', session_phase(ex, s) + '|' + loss_context(ex, s, x),
                    'session %d never ended and kept reading, but %s (sent at %.3f) never '
                    'arrived' % (s.ord, x['tag'], x['t'] - 2 ** 20))


def loss_context(ex, s, x):
    for b, e, att in upgrade_windows(s):
        if b <= x['t'] and (e is None or x['t'] <= e):
            return 'sent-during-upgrade-' + ('completed' if att.get('promoted') else 'failed')
    if any(att.get('promoted') is None for att in s.upg_attempts):
        return 'after-failed-upgrade' if any(
            att['t'] <= x['t'] for att in s.upg_attempts) else 'before-upgrade'
    return 'plain'


PROFILE = {
    'world_kw_st': st.fixed_dictionaries({
        'timer_jitter': st.sampled_from([0.0, 0.0, 2.0 ** -12])}),   # timers fire slightly late
    # polling clients come in flavours: plain, JSONP (j=<n>, d=<payload> posts), compressed
    # answers (Accept-Encoding with a low threshold), both
    'client_flavours': ['plain', 'plain', 'plain', 'jsonp', 'gzip', 'jsonp+gzip'],
    'weights': {'open': 3, 'poll': 5, 'post': 2, 'probe_step': 6, 'ws_send': 2, 'ws_close': 1,
                'ws_fail': 1, 'ws_soft_fail': 1, 'pong': 1, 'upg_swap': 2, 'app_send': 8, 'app_burst': 1, 'advance': 3},
    'max_sessions': 3,
    # half of the client's messages are answered by the message handler itself (send() from
    # inside the handler, before it returns): replies join the ordinary send stream
    'reactions': [('echo', 50)],
    'server_empties_pct': 4,     # send(sid, b''): an empty binary message
    'packet_kinds': [('msg', 4), ('pong', 2), ('upgrade', 1)],
    'post_modes': [('pkts', 1)],
    'declared_delta': [0],
    'config': {'http_compression': st.sampled_from([True, True, False]),
               'compression_threshold': st.sampled_from([0, 16, 1024]),
               'transports': st.sampled_from([None, None, None, None, ['polling', 'websocket'],
                                              ['polling'], ['websocket']]),
               'allow_upgrades': st.sampled_from([True, True, True, True, False]),
               'ping_interval': st.sampled_from([1, 5, 25, 25]),
               'ping_timeout': st.sampled_from([1, 5, 20, 20])},
    'wrong_step_pct': 1,
    'autopong': [True, True, True, False],
}


def summarize(ex):
    cls = []
    nt = False
    n_recv = 0
    for s in ex.sessions:
        if any(x['upg_state'] == 'open' for x in s.app_sent):
            nt = True
            cls.append('send-during-upgrade')
        if any(a['op'] == 'app_burst' and a['s'] == s.ord for a in ex.actions):
            nt = True
            cls.append('burst-of-15..40-sends')
        if any(p._overlaps for p in s.polls):
            nt = True
            cls.append('overlapping-polls')
        if any(x['poll_pending'] for x in s.app_sent):
            nt = True
            cls.append('send-racing-pending-poll')
        if any(p._upg_state == 'open' for p in s.polls):
            cls.append('poll-during-upgrade')
        if any(x.get('in_handler') for x in s.app_sent):
            cls.append('reply-sent-by-message-handler')
            if any(x.get('in_handler') and x['tag'] in [g['tag'] for g in received_msgs(s)]
                   for x in s.app_sent):
                cls.append('handler-reply-delivered')
        if any(att.get('promoted') for att in s.upg_attempts):
            cls.append('upgrade-completed')
        if any(not att.get('promoted') for att in s.upg_attempts):
            cls.append('upgrade-not-completed')
        n_recv += len(received_msgs(s))
    cls.append('messages-delivered>0' if n_recv else 'messages-delivered=0')
    obs = {'sessions': len(ex.sessions), 'delivered': n_recv,
           'sent': sum(len(s.app_sent) for s in ex.sessions)}
    return obs, nt, sorted(set(cls))


def run_shard(ctx):
    quick = ctx.tier == 'quick'
    history_property(ctx, ID, PROFILE, [monitor], summarize,
                     max_examples=150 if quick else 3000, steps=30 if quick else 60)


def replay(case, ctx):
    run_trace(ID, case, [monitor])
