"""C04 - Client-to-server packets are acted on exactly once, in order, by type."""
from hypothesis import strategies as st

from vk.runner import Violation
from vk.histories import history_property, run_trace
from vk.machine import find_tag
from vk import refmodel as rm

ID = 'C04'
LEVEL = 'exploration'
RULE = ('Hypothesis draws configuration (handler dispatch mode, limits, transports) and a history '
        'whose POST bodies and WebSocket frames are built from every packet type 0..9, every '
        'payload kind (tagged text, JSON, binary, JSON-look-alike text), CLOSE/invalid packets at '
        'every position, 15..19-packet bodies, undecodable bodies, wrong declared lengths, on '
        'polling (plain, JSONP with d= bodies, compressed answers), WebSocket and mid-upgrade sessions, both servers, handlers that may take virtual time. Oracle: model of the statement '
        '(MESSAGE => exactly one event with the reference-decoded payload; CLOSE ends the session; '
        'other types: 400 + session end on polling, ignored on WebSocket; refused bodies => no '
        'event; wire order with synchronous handlers). Non-trivial: a body with >=2 packets '
        'including a non-MESSAGE type, or an undefined type, or a CLOSE that is not last. '
        'Distinct: hash of (impl, config, abbreviated actions, observations).')
ASSUMPTIONS = ['same kernel assumptions as C03',
               'packets that follow a CLOSE or a refused type in the same body are an open cell']


def V(ex, clause, trigger, detail):
    return Violation(ID, ex.impl, clause, trigger, detail)


def allowed_decodes(data):
    if data is None:
        return ['']
    if isinstance(data, (bytes, bytearray)):
        return [bytes(data)]
    if isinstance(data, str):
        al = rm.ref_decode_text_payload(data)
        if rm.text_has_big_int(data) and data not in al:
            al = [data] + al
        return al
    return [data]


def effective(e, limit):
    """Reference reading of what the server will see for a POST entry."""
    raw = e['raw']
    body = raw.encode('utf-8', 'surrogatepass') if isinstance(raw, str) else raw
    dec = e.get('declared')
    if dec is not None and dec < len(body):
        body = body[:dec]
    try:
        text = body.decode('utf-8')
    except UnicodeDecodeError:
        return ('invalid', 'not utf-8')
    return rm.ref_decode_body(text)


def accepted_stream(ex, s):
    """Per session: units (bodies / frames) in issue order:
    dict(kind, e, eff=('ok', [(type, [allowed], binary)]) | ('invalid', why) | ('open', why))."""
    units = []
    per_conn = {}
    limit = ex.config.get('max_http_buffer_size', 1000000)
    for e in s.client_sent:
        if e['via'] == 'post':
            units.append({'kind': 'post', 'e': e, 'eff': effective(e, limit), 'req': e['req']})
        else:
            conn = e['conn']
            idx = per_conn.get(id(conn), 0)
            per_conn[id(conn)] = idx + 1
            fr = e['raw']
            if fr in ('', b''):
                eff = ('invalid', 'empty frame') if fr == '' else ('ok', [(4, [b''], True)])
            else:
                r = rm.ref_decode_packet(fr)
                eff = ('ok', [(r[1], r[2], r[3])]) if r[0] == 'ok' else (r[0], r[1])
            att = [a for a in s.upg_attempts if a['conn'] is conn]
            kind = 'frame'
            if att:
                frames = [f for _, f in att[0]['frames']]
                if not (frames[:2] == ['2probe', '5'] and idx >= 2):
                    kind = 'handshake-frame'
            units.append({'kind': kind, 'e': e, 'eff': eff, 'conn': conn})
    return units


def monitor(ex, final):
    sync = not ex.config.get('async_handlers', True)
    limit = ex.config.get('max_http_buffer_size', 1000000)
    for s in ex.sessions:
        evs = ex.events_for(s)
        msgs = [(t, a) for t, e, a in evs if e == 'message']
        units = accepted_stream(ex, s)
        # index every MESSAGE packet the client legitimately sent, by tag
        sent = {}
        untagged = []
        refused_tags = {}
        open_units = False
        for u in units:
            if u['eff'][0] == 'open':
                open_units = True
            if u['eff'][0] != 'ok':
                continue
            why = refusal(ex, s, u, limit)
            for k, (pt, allowed, binary) in enumerate(u['eff'][1]):
                if pt != 4:
                    continue
                tag = find_tag(allowed[-1])
                if tag is None:
                    untagged.append((u, allowed))
                    continue
                if tag in sent and sent[tag][0] is not u:
                    continue
                sent[tag] = (u, k, allowed)
                if why:
                    refused_tags[tag] = why
        seen = {}
        for t, arg in msgs:
            tag = find_tag(arg)
            if tag is None:
                if open_units:
                    continue
                if not any(any(rm.jeq(arg, d) for d in allowed) and not refusal(ex, s, u, limit)
                           for u, allowed in untagged):
                    raise V(ex, 'message-event-nobody-sent', type(arg).__name__,
                            'session %d: message event with %r which no accepted packet carried'
                            % (s.ord, arg))
                continue
            if tag not in sent:
                if open_units:
                    continue
                raise V(ex, 'message-event-nobody-sent', 'tagged',
                        'session %d: message event %s was not carried by any decodable body or '
                        'frame sent on this session' % (s.ord, tag))
            u, k, allowed = sent[tag]
            if u['kind'] == 'handshake-frame':
                raise V(ex, 'handshake-frame-dispatched', 'frame',
                        'session %d: %s was sent as a handshake frame on an upgrade socket but '
                        'reached the message handler' % (s.ord, tag))
            if tag in refused_tags:
                raise V(ex, 'event-from-refused-body', refused_tags[tag],
                        'session %d: %s arrived in a body that had to be refused (%s) but '
                        'reached the message handler' % (s.ord, tag, refused_tags[tag]))
            if not any(rm.jeq(arg, d) for d in allowed):
                raise V(ex, 'payload-changed', type(allowed[-1]).__name__,
                        'session %d: %s should reach the handler as %r, got %r' % (
                            s.ord, tag, allowed[-1], arg))
            if tag in seen:
                raise V(ex, 'message-dispatched-twice', u['kind'],
                        'session %d: %s fired %d message events' % (s.ord, tag, 2))
            seen[tag] = t
        # an UPGRADE packet in an accepted polling body is answered with a NOOP
        if final and not s.upg_attempts and s.kind == 'polling' and s.main_ws is None and \
                not s.vanished and not any(e == 'disconnect' for _, e, _ in evs):
            n5 = 0
            for u in units:
                d = u['e'].get('det')
                if u['kind'] == 'post' and u['eff'][0] == 'ok' and d and d['live'] and \
                        d['settled_after'] and u['e']['req'].done and u['e']['req'].status == 200:
                    for pt, allowed, binary in u['eff'][1]:
                        if pt == 1 or pt in (0, 2, 6, 7, 8, 9):
                            break
                        if pt == 5:
                            n5 += 1
            n6 = sum(1 for (t, via, pt, payload, where) in s.received if pt == 6)
            if n6 < n5:
                raise V(ex, 'upgrade-packet-not-answered-with-noop', 'polling',
                        'session %d: %d UPGRADE packets accepted, %d NOOP received' % (
                            s.ord, n5, n6))
        # ... and so is an UPGRADE frame on a session that began on WebSocket
        if final and s.kind == 'websocket' and not s.upg_attempts and not s.vanished and \
                not any(e == 'disconnect' for _, e, _ in evs) and not s.causes:
            n5 = 0
            for u in units:
                d = u['e'].get('det')
                if u['kind'] == 'frame' and u['eff'][0] == 'ok' and d and d['live'] and \
                        d['settled_after'] and [p[0] for p in u['eff'][1]] == [5]:
                    n5 += 1
            n6 = sum(1 for (t, via, pt, payload, where) in s.received if pt == 6)
            if n6 < n5:
                raise V(ex, 'upgrade-packet-not-answered-with-noop', 'websocket',
                        'session %d: %d UPGRADE frames accepted, %d NOOP received' % (
                            s.ord, n5, n6))
        # required deliveries and per-type behaviour, for units issued at a quiet point
        order = [find_tag(a) for _, a in msgs]
        for u in units:
            d = u['e'].get('det')
            if not d or u['eff'][0] != 'ok' or u['kind'] == 'handshake-frame':
                continue
            if not d['settled_after'] or u['e'].get('step') != len(ex.actions) or final:
                continue                # judged once, right after its own (settled) step
            if ex.world.app_log.busy:
                continue                # a handler is still taking its time: the unit is not done
            check_unit(ex, s, u, d, seen, order, sync, limit)


def kind_of(data):
    if isinstance(data, (bytes, bytearray)):
        return 'bytes'
    if isinstance(data, str):
        al = allowed_decodes(data)
        return 'text' if al == [data] else 'lookalike-text'
    return 'json'


def refusal(ex, s, u, limit):
    """Why a unit must be refused as a whole (None if it need not be)."""
    e = u['e']
    if u['kind'] == 'post':
        dec = e.get('declared')
        if dec is not None and dec > limit:
            return 'declared-over-limit'
        if dec is None and e.get('size', 0) > limit:
            return 'body-over-limit'
    if u['kind'] != 'post' and e.get('size', 0) > limit:
        return 'frame-over-limit'
    return None


def check_unit(ex, s, u, d, seen, order, sync, limit):
    e = u['e']
    if not d['live']:
        if d.get('live_any') and u['kind'] == 'post':
            check_post_to_ws_session(ex, s, u, d, limit)
        return
    from props.c05 import fresh_until
    if e['t'] > fresh_until(ex, s, e['t']):
        return          # the heartbeat deadline of this session has passed: the next touch may
                        # find it timed out (C07's business), nothing about this unit is certain
    if refusal(ex, s, u, limit):
        if u['kind'] == 'post' and e['req'].done and e['req'].status == 200:
            raise V(ex, 'refused-body-answered-200', refusal(ex, s, u, limit),
                    'session %d: POST that must be refused got 200' % s.ord)
        return
    polling = u['kind'] == 'post'
    required = []
    end = None
    for k, (pt, allowed, binary) in enumerate(u['eff'][1]):
        if pt == 4:
            tag = find_tag(allowed[-1])
            if tag:
                required.append(tag)
        elif pt == 1:
            end = ('close', k)
            break
        elif pt in (3, 5):
            continue
        else:
            if polling:
                end = ('bad', k, pt)
                break
    if end and end[0] == 'bad':
        # the body is processed in order and the refused packet fails the request: what stands
        # behind it in the same body is not acted on
        for pt2, allowed2, _ in u['eff'][1][end[1] + 1:]:
            tag2 = find_tag(allowed2[-1]) if pt2 == 4 else None
            if tag2 and tag2 in seen:
                raise V(ex, 'message-dispatched-after-refused-packet', 'type=%d' % end[2],
                        'session %d: %s stands behind a packet of type %d in the same body but '
                        'was dispatched' % (s.ord, tag2, end[2]))
    for tag in required:
        if tag not in seen:
            raise V(ex, 'message-not-dispatched',
                    '%s|%s' % (u['kind'], 'before-' + end[0] if end else 'plain'),
                    'session %d: %s was accepted (%s) but no message event fired' % (
                        s.ord, tag, u['kind']))
    # untagged payloads (empty bytes / text): an event of this very step must carry each
    if not end:
        steps = ex.event_steps_for(s)
        now_args = [a for (t, ev, a), stp in zip(ex.events_for(s), steps)
                    if ev == 'message' and stp == len(ex.actions)]
        for pt, allowed, binary in u['eff'][1]:
            if pt != 4 or find_tag(allowed[-1]) is not None:
                continue
            hit = [i for i, a in enumerate(now_args)
                   if any(type(a) is type(dd) and rm.jeq(a, dd) for dd in allowed)]
            if not hit:
                raise V(ex, 'message-not-dispatched', '%s|untagged-%s' % (
                    u['kind'], 'empty' if allowed[-1] in (b'', '') else 'short'),
                    'session %d: MESSAGE %r was accepted (%s) but no message event carried it' % (
                        s.ord, allowed[-1], u['kind']))
            del now_args[hit[0]]
    if sync and len(required) > 1:
        idx = [order.index(t) for t in required]
        if idx != sorted(idx):
            raise V(ex, 'events-out-of-wire-order', u['kind'],
                    'session %d: tags %s fired in order %s' % (s.ord, required, idx))
    evs = ex.events_for(s)
    disc = [(t, a) for t, ev, a in evs if ev == 'disconnect']
    if polling:
        r = e['req']
        if end and end[0] == 'bad':
            if not r.done:
                raise V(ex, 'bad-type-request-not-failed', 'type=%d|pending' % end[2],
                        'session %d: POST carrying packet type %d never completed' % (
                            s.ord, end[2]))
            if r.status != 400:
                raise V(ex, 'bad-type-request-not-failed', 'type=%d|status=%s' % (end[2], r.status),
                        'session %d: POST carrying packet type %d answered %s' % (
                            s.ord, end[2], r.status))
            if not disc:
                raise V(ex, 'bad-type-session-not-ended', 'type=%d' % end[2],
                        'session %d: still alive after a POST with packet type %d' % (
                            s.ord, end[2]))
        elif end and end[0] == 'close':
            if not disc:
                raise V(ex, 'close-did-not-end-session', 'post',
                        'session %d: CLOSE in a POST body, no disconnect event' % s.ord)
            if disc[0][1] != 'client disconnect' and not d['other_causes']:
                raise V(ex, 'close-wrong-reason', str(disc[0][1]),
                        'session %d: CLOSE packet ended the session with reason %r' % (
                            s.ord, disc[0][1]))
        else:
            if r.done and r.status != 200 and not d['other_causes']:
                raise V(ex, 'valid-body-refused', 'status=%s' % r.status,
                        'session %d: well-formed POST %r answered %s' % (
                            s.ord, [p[0] for p in u['eff'][1]], r.status))
    else:
        if end and end[0] == 'close':
            if not disc:
                raise V(ex, 'close-did-not-end-session', 'frame',
                        'session %d: CLOSE frame, no disconnect event' % s.ord)
        elif not end:
            pt = u['eff'][1][0][0] if u['eff'][1] else None
            conn = u.get('conn')
            if pt == 4 and disc and not d['other_causes'] and not s.causes and not s.vanished \
                    and not getattr(s, 'soft_faults', None) and conn is not None and \
                    not (conn.peer_closed or conn.failed):
                raise V(ex, 'valid-frame-ended-session', str(disc[0][1]),
                        'session %d: a well-formed MESSAGE frame %r ended the session (%r)' % (
                            s.ord, e['raw'] if len(e['raw']) < 30 else e['raw'][:30], disc[0][1]))
            if pt in (0, 2, 6, 7, 8, 9) and disc and not d['other_causes']:
                raise V(ex, 'ws-bad-type-not-ignored', 'type=%d' % pt,
                        'session %d: frame of type %d ended the session (%r)' % (
                            s.ord, pt, disc[0][1]))


def check_post_to_ws_session(ex, s, u, d, limit):
    """A POST body is a polling carrier whatever transport the session named in it uses: a
    packet type that clients may not send is a protocol error there - the request fails and the
    session ends - also when the session began on WebSocket."""
    from props.c05 import fresh_until
    e = u['e']
    if e['t'] > fresh_until(ex, s, e['t']) or refusal(ex, s, u, limit) or d['other_causes']:
        return
    if 'polling' not in (ex.config.get('transports') or ['polling', 'websocket']):
        return      # the POST names a transport the server does not allow: refused at admission
    bad = None
    for k, (pt, allowed, binary) in enumerate(u['eff'][1]):
        if pt == 1:
            return
        if pt in (0, 2, 6, 7, 8, 9):
            bad = pt
            break
    if bad is None:
        return
    r = e['req']
    if r.done and r.status == 200:
        raise V(ex, 'bad-type-request-not-failed', 'type=%d|status=200|ws-session' % bad,
                'session %d (on WebSocket): POST carrying packet type %d answered 200' % (
                    s.ord, bad))
    if r.done and not any(ev == 'disconnect' for _, ev, _ in ex.events_for(s)):
        raise V(ex, 'bad-type-session-not-ended', 'type=%d|ws-session' % bad,
                'session %d (on WebSocket): still alive after a POST with packet type %d' % (
                    s.ord, bad))


PROFILE = {
    'untagged_empties_pct': 6,       # MESSAGE packets with an empty / one-byte untagged payload
    # polling clients come in flavours: plain, JSONP (j=<n>, d=<payload> posts), compressed
    # answers (Accept-Encoding with a low threshold), both
    'client_flavours': ['plain', 'plain', 'plain', 'jsonp', 'gzip', 'jsonp+gzip'],
    'world_kw_st': st.fixed_dictionaries({
        'timer_jitter': st.sampled_from([0.0, 0.0, 2.0 ** -12]),   # timers fire slightly late
        'handler_delay': st.sampled_from([{}, {}, {}, {'disconnect': 0.25}, {'message': 0.25},
                                          {'disconnect': 0.25, 'message': 0.25}])}),
    'weights': {'open': 3, 'poll': 3, 'post': 9, 'probe_step': 4, 'ws_send': 6, 'ws_close': 1,
                'pong': 1, 'app_send': 1, 'advance': 2, 'fault': 0},
    'max_sessions': 3,
    'packet_kinds': [('msg', 7), ('pong', 1), ('close', 1), ('upgrade', 1), ('bad', 2), ('noise', 1)],
    'post_modes': [('pkts', 10), ('raw', 1), ('many', 1)],
    'config': {'http_compression': st.sampled_from([True, True, False]),
               'compression_threshold': st.sampled_from([0, 16, 1024]),
               'transports': st.sampled_from([None, None, None, ['polling', 'websocket'],
                                              ['polling'], ['websocket']]),
               'max_http_buffer_size': st.sampled_from([1000000, 1000000, 120, 60]),
               'ping_interval': st.sampled_from([5, 25, 25]),
               'ping_timeout': st.sampled_from([5, 20, 20])},
    'wrong_step_pct': 1,
    'autopong': [True],
    'open_transports': ['polling', 'polling', 'websocket'],
}


def summarize(ex):
    cls = set()
    nt = False
    for s in ex.sessions:
        for u in accepted_stream(ex, s):
            cls.add('unit-%s-%s' % (u['kind'], u['eff'][0]))
            if u['eff'][0] != 'ok':
                continue
            types = [p[0] for p in u['eff'][1]]
            if len(types) >= 2 and any(t != 4 for t in types):
                nt = True
                cls.add('mixed-body')
            if any(t in (7, 8, 9) for t in types if t is not None):
                nt = True
                cls.add('undefined-type')
            if 1 in types[:-1]:
                nt = True
                cls.add('close-not-last')
            if len(types) > 16:
                cls.add('over-16-packets')
            if u['e'].get('det') and u['e']['det']['live']:
                cls.add('determinate-unit')
    n = sum(1 for _, e, _, _ in ex.world.app_log.events if e == 'message')
    cls.add('message-events>0' if n else 'message-events=0')
    return {'message_events': n, 'sessions': len(ex.sessions)}, nt, sorted(cls)


def pong_rearm_case(case, ctx=None):
    """A PONG re-arms the heartbeat in every session state: the next PING is emitted exactly
    ping_interval after it (enumerated product, not sampled)."""
    from vk.machine import Exec
    impl, state, pos, I, T, extra = case
    rep = {'pong_rearm': list(case)}
    ex = Exec(impl, {'ping_interval': I, 'ping_timeout': T, 'http_compression': False,
                     'async_handlers': False})
    try:
        ex.do({'op': 'open', 'transport': 'websocket' if state == 'ws-first' else 'polling',
               'autopong': False, 'autopoll': state != 'ws-first'})
        s = ex.sessions[0]
        if state == 'upgraded':
            for fr in ('2probe', '5'):
                if fr == '2probe':
                    ex.do({'op': 'upg_connect', 's': 0})
                ex.do({'op': 'ws_send', 's': 0, 'sock': 'upg', 'frame': rm.tag(fr)})
        ex.do({'op': 'advance', 'dt': I})
        if not s.pings:
            raise V(ex, 'first-ping-missing', state, 'no PING %s after open' % I)
        if extra:
            ex.do({'op': 'advance', 'dt': extra})
        if state == 'mid-upgrade':
            ex.do({'op': 'upg_connect', 's': 0})
            ex.do({'op': 'ws_send', 's': 0, 'sock': 'upg', 'frame': rm.tag('2probe')})
        t_pong = ex.now
        n_before = len(s.pings)
        if s.main_ws is not None:
            ex.do({'op': 'ws_send', 's': 0, 'sock': 'main', 'frame': rm.tag('3')})
        else:
            pk = {'first': [[3, rm.tag(None)], [4, rm.tag('C0.1~')]],
                  'middle': [[4, rm.tag('C0.1~')], [3, rm.tag(None)], [4, rm.tag('C0.2~')]],
                  'alone': [[3, rm.tag(None)]]}[pos]
            ex.do({'op': 'post', 's': 0, 'pkts': pk})
        if state == 'mid-upgrade':
            ex.do({'op': 'ws_send', 's': 0, 'sock': 'upg', 'frame': rm.tag('5')})
        ex.do({'op': 'advance', 'dt': I + 2.0 ** -10})
        new = s.pings[n_before:]
        evs = ex.events_for(s)
        if any(e == 'disconnect' for _, e, _ in evs):
            raise V(ex, 'pong-did-not-keep-session', state + '|' + pos,
                    'session ended %r although the PING was answered after %s (T=%s)' % (
                        [a for _, e, a in evs if e == 'disconnect'], extra, T))
        if not any(abs(t - (t_pong + I)) < 1e-6 for t in new):
            raise V(ex, 'pong-did-not-rearm-heartbeat', state + '|' + pos,
                    'PONG at %.4f (%s, %s): no PING at %.4f; PINGs seen afterwards at %s' % (
                        t_pong - 2 ** 20, state, pos, t_pong + I - 2 ** 20,
                        [round(t - 2 ** 20, 4) for t in new]))
        if ctx:
            ctx.case(rep, True, [impl, 'pong-rearm-' + state])
    except Violation as v:
        v.case = rep
        raise
    finally:
        ex.close()


def pong_rearm_cases():
    import itertools
    for impl, state, pos, (I, T), extra in itertools.product(
            ('thread', 'async'), ('polling', 'ws-first', 'upgraded', 'mid-upgrade'),
            ('first', 'middle', 'alone'), ((2, 2), (5, 1), (1, 2.5)), (0, 0.5)):
        if state in ('ws-first', 'upgraded') and pos != 'alone':
            continue
        yield (impl, state, pos, I, T, extra if extra < T else 0)


def run_shard(ctx):
    quick = ctx.tier == 'quick'
    for i, c in enumerate(pong_rearm_cases()):
        if i % ctx.nshards != ctx.shard:
            continue
        try:
            pong_rearm_case(c, ctx)
        except Violation as v:
            if ctx.is_known(v):
                ctx.note_known(v)
            elif v.signature not in ctx.ignored:
                ctx.add_violation(v)
    history_property(ctx, ID, PROFILE, [monitor], summarize,
                     max_examples=200 if quick else 3000, steps=30 if quick else 60)


def replay(case, ctx):
    if 'pong_rearm' in case:
        return pong_rearm_case(tuple(case['pong_rearm']))
    run_trace(ID, case, [monitor])
