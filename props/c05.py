"""C05 - Session events: connect first, one disconnect with the true reason, none after."""
import os

from hypothesis import strategies as st

from vk.runner import Violation
from vk.histories import history_property, run_trace
from vk import refmodel as rm
from props.c04 import accepted_stream, refusal

ID = 'C05'
LEVEL = 'exploration'
RULE = ('Hypothesis draws configuration and a history heavy on end causes - client CLOSE (POST or '
        'frame), server disconnect(sid) / disconnect(), heartbeat silence, WebSocket closed or '
        'failed, poll timeout, protocol errors, a message handler that itself calls disconnect(sid) - injected one after another or inside the same '
        'unsettled step (simultaneous), with connect-handler outcomes (accept, False, 0, text, '
        'dict, list, raise), message/disconnect handler exceptions and requests/frames after the '
        'end; handlers may take virtual time (the event is logged when the handler starts, further causes arrive while it runs); polling clients may be JSONP / compressed-answer clients. Oracle: per session the handler log matches connect (message)* disconnect?, at most '
        'one disconnect, nothing after it, rejected sessions get no further event, the reason is '
        'the reason of a cause that had occurred, and the reason of the single cause when one '
        'cause was injected alone into a live, quiet session. Non-trivial: >=2 end causes for one '
        'session, or a handler fault, or an event-producing unit after the end. Distinct: hash of '
        '(impl, config, abbreviated actions, observations).')
ASSUMPTIONS = ['same kernel assumptions as C03']

TIME_REASONS = {'ping timeout', 'transport error', 'transport close'}
REASON = {'close': {'client disconnect'}, 'api': {'server disconnect'},
          'ws-close': {'transport close'}, 'ws-fail': {'transport close'},
          'protocol': {'server disconnect', 'transport error', 'transport close', 'ping timeout'}}


def V(ex, clause, trigger, detail):
    return Violation(ID, ex.impl, clause, trigger, detail)


def explicit_causes(ex, s):
    """[(t, step, cause, det)] from what the simulated client / application did."""
    out = []
    limit = ex.config.get('max_http_buffer_size', 1000000)
    for c in s.causes:
        if c['cause'] == 'api' and c['call'].args == () and not c['call'].done:
            # disconnect() of all sessions that never got to this one (it blocked on an
            # earlier session: C15's business) is not an end cause for this session
            if not any(e == 'disconnect' for _, e, _ in ex.events_for(s)):
                continue
        out.append((c['t'], c.get('step'), c['cause'], c.get('det')))
    for t in getattr(s, 'soft_faults', []):
        # one write of the server fails: a cause as soon as the server writes (never certain)
        out.append((t, None, 'ws-fail', None))
    for att in s.upg_attempts:
        # a handshake completed on an upgrade socket that had failed or that the client had
        # closed: the session moves to a dead WebSocket
        c = att['conn']
        if (c.failed or c.peer_closed) and [f for _, f in att['frames']][:2] == ['2probe', '5']:
            out.append((att['t'], None, 'ws-fail', None))
    listed = [c.get('call') for c in s.causes]
    for c in ex.world.calls:
        if c.name == 'disconnect' and c.args == () and c not in listed:
            # disconnect() of everybody, issued before this session was opened but possibly
            # run after (unsettled step)
            if any(e == 'disconnect' for _, e, _ in ex.events_for(s)):
                out.append((c.t_start, None, 'api', None))
    for u in accepted_stream(ex, s):
        e = u['e']
        if u['kind'] == 'handshake-frame':
            continue
        if refusal(ex, s, u, limit):
            out.append((e['t'], e.get('step'), 'protocol', e.get('det')))
            continue
        if u['eff'][0] == 'open' and u['kind'] == 'post':
            # the reference does not decide how this body reads (e.g. base64 with stray
            # characters): it may have carried a CLOSE or counted as a protocol error
            out.append((e['t'], e.get('step'), 'close', None))
            out.append((e['t'], e.get('step'), 'protocol', None))
            continue
        if u['eff'][0] != 'ok':
            if u['kind'] == 'frame':
                out.append((e['t'], e.get('step'), 'protocol', e.get('det')))
            continue
        for pt, allowed, binary in u['eff'][1]:
            if pt == 1:
                out.append((e['t'], e.get('step'), 'close', e.get('det')))
                break
            if pt in (0, 2, 6, 7, 8, 9) and u['kind'] == 'post':
                out.append((e['t'], e.get('step'), 'protocol', e.get('det')))
                break
    return sorted(out, key=lambda x: (x[0], x[1] or 0))


def fresh_until(ex, s, t):
    """No time-based end (heartbeat, poll or read timeout) can have happened up to this time,
    given the PONGs the client had sent before t."""
    # every PONG (and the OPEN) starts a timer that sends a PING I later; a PING that no PONG
    # answers within T ends the session. An unsolicited PONG starts a second timer but does not
    # cancel the first one, so the earliest unanswered PING decides.
    pongs = sorted(s.pongs)
    chains = [getattr(s, 't_open', None) or 0] + [p for p in pongs if p < t]
    due = []
    for c in chains:
        lo, hi = c + ex.I, c + ex.I + ex.T
        if not any(lo <= p <= hi for p in pongs):
            due.append(hi)
    # a PONG nobody asked for starts a timer whose PING the client may never see
    due += [c + ex.I + ex.T for c in getattr(s, 'pongs_unsolicited', []) if c < t]
    return min(due) if due else max(chains) + ex.I + ex.T


def monitor(ex, final):
    for s in ex.sessions:
        sid = ex.sid_of(s)
        if sid is None:
            continue
        evs = ex.events_for(s)
        if not evs:
            continue
        kinds = [e for _, e, _ in evs]
        if kinds[0] != 'connect':
            raise V(ex, 'connect-not-first', kinds[0],
                    'session %d: first event is %s' % (s.ord, kinds[0]))
        if kinds.count('connect') != 1:
            raise V(ex, 'connect-repeated', str(kinds.count('connect')),
                    'session %d: %d connect events' % (s.ord, kinds.count('connect')))
        if not s.expect_accept:
            if len(kinds) > 1:
                raise V(ex, 'event-for-rejected-session', kinds[1],
                        'session %d was rejected by its connect handler but got %s' % (
                            s.ord, kinds[1:]))
            continue
        nd = kinds.count('disconnect')
        causes = explicit_causes(ex, s)
        if nd > 1:
            raise V(ex, 'disconnect-repeated', cause_class(causes),
                    'session %d: %d disconnect events, reasons %s' % (
                        s.ord, nd, [a for _, e, a in evs if e == 'disconnect']))
        if nd == 1:
            i = kinds.index('disconnect')
            if i != len(kinds) - 1:
                check_after(ex, s, evs, i)
            t_ev, _, reason = evs[i]
            allowed = set()
            for t, step, cause, det in causes:
                if t <= t_ev:
                    allowed |= REASON[cause]
            if t_ev >= fresh_until(ex, s, t_ev) - 1e-6 or s.vanished:
                allowed |= TIME_REASONS
            if any(p.t_start + ex.I + ex.T <= t_ev + 1e-6 for p in s.polls + [s.open_req] if p is not None):
                allowed.add('transport error')
            if s.main_ws is not None and (s.main_ws.server_closed or s.main_ws.done):
                allowed.add('transport close')
            if reason is not None and reason not in allowed:
                raise V(ex, 'disconnect-reason-without-cause',
                        '%s|causes=%s' % (reason, cause_class([c for c in causes if c[0] <= t_ev])),
                        'session %d: disconnect reason %r at %.3f; causes so far %s' % (
                            s.ord, reason, t_ev - 2 ** 20,
                            [(c[2], c[0] - 2 ** 20) for c in causes if c[0] <= t_ev]))
        # a single cause injected alone into a live, quiet session, step settled: it must have
        # ended the session, with its own reason (judged right after that step)
        for t, step, cause, det in causes:
            if step != len(ex.actions) or final or not det:
                continue
            if not det['live'] or not det['settled_after'] or det['other_causes']:
                continue
            if ex.world.app_log.busy:
                continue        # a handler is still taking its time: the unit is not done yet
            if any(c.get('in_handler') for c in s.causes):
                continue        # the message handler called disconnect(sid) as well
            if t > fresh_until(ex, s, t):
                continue
            if cause == 'protocol' and not proto_must_end(ex, s, step):
                continue
            if cause in ('ws-close', 'ws-fail') and any(
                    not p.done or p._overlaps or p.t_end >= t for p in s.polls):
                # a poll left over from before the upgrade may take the writer's stop sentinel:
                # the end is then noticed at the writer's next timeout (judged at the end)
                continue
            if nd != 1:
                raise V(ex, 'end-cause-without-disconnect-event', cause,
                        'session %d: %s at a quiet point, but %d disconnect events' % (
                            s.ord, cause, nd))
            reason = [a for _, e, a in evs if e == 'disconnect'][0]
            if reason is not None and reason not in REASON[cause]:
                raise V(ex, 'wrong-disconnect-reason', '%s->%s' % (cause, reason),
                        'session %d ended by %s alone, handler was told %r' % (
                            s.ord, cause, reason))
        if final and nd == 1:
            # cleanup happened even if the disconnect handler raised: the id is dead afterwards
            c = ex.world.call('transport', sid)
            ex.world.settle()
            if c.done and not isinstance(c.exc, KeyError):
                faulted = any(a['op'] == 'fault' and a['event'] == 'disconnect'
                              for a in ex.actions)
                raise V(ex, 'session-not-cleaned-up-after-disconnect-event',
                        'handler-raised' if faulted else 'handler-ok',
                        'session %d got its disconnect event but transport() still answers %r '
                        '(exc %r)' % (s.ord, c.result, c.exc))
        for c in s.causes:
            # disconnect(sid) called by the message handler and returned: the session has ended
            if c.get('in_handler') and c['call'].done and c['call'].exc is None and nd == 0:
                raise V(ex, 'end-cause-without-disconnect-event', 'api|from-message-handler',
                        'session %d: its message handler called disconnect(sid), which returned, '
                        'but no disconnect event was delivered' % s.ord)
        if final and nd == 0:
            must = [c for c in causes if c[3] and c[3]['live'] and c[3]['settled_after']
                    and c[2] in ('close', 'api', 'ws-close', 'ws-fail')]
            if must:
                raise V(ex, 'end-cause-without-disconnect-event', must[0][2] + '|final',
                        'session %d: %s happened but the disconnect handler never ran' % (
                            s.ord, must[0][2]))
            if s.vanished and ex.config.get('monitor_clients', True) and \
                    ex.now - s.t_vanished > ex.I + 3 * ex.T + ex.I:
                raise V(ex, 'vanished-client-never-disconnected', 'monitor-on',
                        'session %d vanished at %.3f, no disconnect event by %.3f' % (
                            s.ord, s.t_vanished - 2 ** 20, ex.now - 2 ** 20))


def check_after(ex, s, evs, i):
    """Events after the disconnect event: a violation when they result from a request or frame
    the client issued after (a later step than) the disconnect event; units already in flight
    when the session ended are exempt (the statement says 'received afterwards')."""
    from vk.machine import find_tag
    steps = ex.event_steps_for(s)
    d_step = steps[i]
    unit_step = {}
    for u in accepted_stream(ex, s):
        if u['eff'][0] != 'ok':
            continue
        for pt, allowed, binary in u['eff'][1]:
            tag = find_tag(allowed[-1]) if pt == 4 else None
            if tag:
                unit_step[tag] = u['e'].get('step')
    for k in range(i + 1, len(evs)):
        t, e, a = evs[k]
        if e in ('connect', 'disconnect'):
            raise V(ex, 'event-after-disconnect', e,
                    'session %d: %s event after its disconnect event' % (s.ord, e))
        tag = find_tag(a)
        if tag is None or tag not in unit_step:
            continue
        if unit_step[tag] is not None and unit_step[tag] > d_step:
            raise V(ex, 'event-after-disconnect', 'message|' + via_after(ex, s, evs, i),
                    'session %d: message %s, sent by the client in step %d, fired after the '
                    'disconnect event of step %d' % (s.ord, tag, unit_step[tag], d_step))


def proto_must_end(ex, s, step):
    """A protocol error ends the session on polling (POST); on WebSocket bad types are ignored
    and undecodable frames have no stated outcome."""
    for e in s.client_sent:
        if e.get('step') == step:
            return e['via'] == 'post'
    return False


def via_after(ex, s, evs, i):
    return 'ws' if s.main_ws is not None else 'polling'


def cause_class(causes):
    names = sorted(set(c[2] for c in causes))
    return '+'.join(names) or 'none'


PROFILE = {
    'vanish_at_accept_pct': 15,      # direct WebSocket opens whose peer is gone at the handshake
    'client_flavours': ['plain', 'plain', 'plain', 'plain', 'jsonp', 'gzip', 'jsonp+gzip'],
    'weights': {'open': 3, 'poll': 3, 'post': 5, 'probe_step': 3, 'ws_send': 4, 'ws_close': 2,
                'ws_fail': 2, 'ws_soft_fail': 3, 'pong': 1, 'app_send': 3, 'app_disconnect': 4, 'advance': 4,
                'fault': 2, 'vanish': 1},
    'max_sessions': 3,
    # messages whose handler itself calls disconnect(sid) (or sends a reply) before returning
    'reactions': [('bye', 15), ('echo', 10)],
    'packet_kinds': [('msg', 4), ('pong', 1), ('close', 3), ('upgrade', 1), ('bad', 1)],
    'post_modes': [('pkts', 10), ('raw', 1)],
    'config': {'http_compression': st.sampled_from([True, False]),
               'compression_threshold': st.sampled_from([0, 1024]),
               'transports': st.sampled_from([None, None, None, ['polling', 'websocket'],
                                              ['polling'], ['websocket']]),
               'ping_interval': st.sampled_from([1, 2.5, 5, 25]),
               'ping_timeout': st.sampled_from([1, 2.5, 5, 20])},
    'wrong_step_pct': 1,
    'autopong': [True, True, False],
    'settle': [True, True, False],
    'connect_outcomes': [None, None, None, None, None, ['ret', rm.tag(False)],
                         ['ret', rm.tag(0)], ['ret', rm.tag('no')], ['ret', rm.tag({'e': 1})],
                         ['ret', rm.tag([1])], ['raise'], ['raise', 'TypeError'], ['ret', rm.tag(True)],
                         ['ret', rm.tag('')], ['ret', {'t': 'unjson'}]],
    'disconnect_all_pct': 2,
    'disconnect_dead_sid_pct': 8,    # disconnect('') / (0) / (unknown id): not a cause for anybody
    'world_kw_st': st.fixed_dictionaries({
        'legacy_disconnect': st.sampled_from([False, False, True, 'varargs']),
        # handlers that are not plain functions (functools.partial, instances with __call__)
        'handler_style': st.sampled_from([None, None, None, 'partial', 'object']),
        # real timers fire late, never exactly on time: a quarter tick of lateness on every
        # timed wait (the exact virtual clock would otherwise sit on every '>' boundary)
        'timer_jitter': st.sampled_from([0.0, 0.0, 2.0 ** -12]),
        # threaded world: switching points at single lines inside the library
        'preempt': st.sampled_from([False, False, True] if os.environ.get('VERIF_PREEMPT') == '1'
                                   else [False]),
        # handlers that take (virtual) time: the event is logged when the handler starts, other
        # end causes and client units arrive while it is still running
        'handler_delay': st.sampled_from([{}, {}, {}, {'disconnect': 0.25}, {'disconnect': 0.25},
                                          {'disconnect': 0.25, 'message': 0.25},
                                          {'message': 0.25}])}),
}


def summarize(ex):
    cls = set()
    nt = False
    for s in ex.sessions:
        causes = explicit_causes(ex, s)
        if len(causes) >= 2:
            ts = sorted(c[0] for c in causes)
            cls.add('multi-cause')
            nt = True
            if any(ts[i] == ts[i + 1] for i in range(len(ts) - 1)):
                cls.add('simultaneous-causes')
        for c in causes:
            cls.add('cause-' + c[2])
        if s.vanished:
            cls.add('cause-vanish')
        if any(c.get('in_handler') for c in s.causes):
            cls.add('disconnect-called-by-message-handler')
            nt = True
        if not s.expect_accept:
            cls.add('rejected-session')
        evs = ex.events_for(s)
        for _, e, a in evs:
            if e == 'disconnect':
                cls.add('reason-' + str(a))
    for a in ex.actions:
        if a['op'] == 'ws_soft_fail':
            cls.add('transient-write-fault' + ('-' + a['exc'] if a.get('exc') else ''))
    if any(a['op'] == 'fault' for a in ex.actions):
        nt = True
        cls.add('handler-fault')
    if ex.impl == 'thread' and getattr(ex.world.sched, 'preemptions', 0):
        cls.add('line-preemptions')
        nt = True
    for k, v in sorted(ex.world.app_log.delay.items()):
        if v:
            cls.add('slow-%s-handler' % k)
    n = sum(1 for _, e, _, _ in ex.world.app_log.events if e == 'disconnect')
    return {'disconnects': n, 'sessions': len(ex.sessions)}, nt, sorted(cls)


def run_shard(ctx):
    quick = ctx.tier == 'quick'
    history_property(ctx, ID, PROFILE, [monitor], summarize,
                     max_examples=200 if quick else 3000, steps=30 if quick else 60)


def replay(case, ctx):
    run_trace(ID, case, [monitor])
