"""C06 - WebSocket upgrade completes only via the probe handshake; failure is harmless."""
from hypothesis import strategies as st

from vk.runner import Violation
from vk.histories import history_property, run_trace
from vk.machine import find_tag
from props import c03

ID = 'C06'
LEVEL = 'exploration'
RULE = ('Hypothesis draws configuration (transports, allow_upgrades, limits) and a history heavy '
        'on upgrade sockets: every frame sequence on them (correct probe/upgrade, wrong type, '
        'wrong payload, binary, empty, oversize, nothing), closure or fault before the probe, '
        'between probe and UPGRADE and after, concurrent polls and application sends, second '
        'upgrade attempts on upgraded sessions, two upgrade sockets open on one session at once (one silent while the other shakes hands, then closing or sending frames), WebSocket-first opens, upgrade requests naming '
        'transport=polling, Upgrade headers that are not exactly websocket (token lists, other '
        'case, other protocols). Oracle: server.transport(sid) at every quiet point equals the model '
        '(websocket iff ws-first or the first two frames of an accepted upgrade socket were PING '
        'probe then UPGRADE); refused attempts are never accepted; after failed handshakes '
        'everything queued is delivered by polling (C03 completeness) and a later correct '
        'handshake succeeds; a disallowed transport is never used. Non-trivial: a failed '
        'handshake followed by polling or another attempt, or a second attempt on an upgraded '
        'session, or a handshake with sends/polls interleaved. Distinct: hash of (impl, config, '
        'abbreviated actions, observations).')
ASSUMPTIONS = ['same kernel assumptions as C03',
               'allow_upgrades=False with an explicit upgrade attempt is an open cell (the '
               'statement only constrains transports)']


def V(ex, clause, trigger, detail):
    return Violation(ID, ex.impl, clause, trigger, detail)


def allowed(ex, tr):
    t = ex.config.get('transports') or ['polling', 'websocket']
    return tr in t


def att_frames(att):
    return [f for _, f in att['frames']]


def att_class(att):
    fr = att_frames(att)
    if fr[:2] == ['2probe', '5']:
        return 'complete'
    if not fr:
        return 'no-frames'
    if fr[0] != '2probe':
        return 'bad-first:' + frame_class(fr[0])
    if len(fr) < 2:
        return 'probe-only'
    return 'bad-second:' + frame_class(fr[1])


def frame_class(f):
    if isinstance(f, (bytes, bytearray)):
        return 'binary'
    if f == '':
        return 'empty'
    if len(f) > 60:
        return 'oversize'
    return f[:1] + ('+data' if len(f) > 1 else '')


def expected_transport(ex, s):
    """'websocket' | 'polling' | None (undetermined)."""
    if s.kind == 'websocket':
        return 'websocket'
    if not ex.config.get('allow_upgrades', True):
        if s.upg_attempts:
            return None
        return 'polling'
    for att in s.upg_attempts:
        c = att['conn']
        if att.get('unsettled') or c.failed or (c.peer_closed and att_class(att) == 'complete'
                                                  and not att.get('promoted')):
            return None
        if not c.accepted:
            continue
        if att_class(att) == 'complete':
            return 'websocket' if allowed(ex, 'websocket') else None
    return 'polling'


def live_quiet(ex, s):
    evs = ex.events_for(s)
    if not any(e == 'connect' for _, e, _ in evs) or any(e == 'disconnect' for _, e, _ in evs):
        return False
    if not s.expect_accept or s.vanished or s.causes:
        return False
    base = [getattr(s, 't_open', 0)] + list(s.pongs)
    if ex.now > max(base) + ex.I + ex.T - 1e-6:
        return False        # a heartbeat / poll timeout may be due: C07's business
    return True


def monitor(ex, final):
    ws_ok = allowed(ex, 'websocket')
    poll_ok = allowed(ex, 'polling')
    for s in ex.sessions:
        # a disallowed transport is never used
        for conn in [s.open_conn] + [a['conn'] for a in s.upg_attempts]:
            if conn is None:
                continue
            if not ws_ok:
                if conn.accepted:
                    raise V(ex, 'disallowed-transport-used', 'websocket-accepted',
                            'session %d: WebSocket accepted although transports=%s' % (
                                s.ord, ex.config.get('transports')))
                if any(True for f in conn.frames()):
                    raise V(ex, 'disallowed-transport-used', 'websocket-frames',
                            'session %d: frames written to a WebSocket, transports=%s' % (
                                s.ord, ex.config.get('transports')))
        if not ws_ok:
            for r in s.polls:
                if getattr(r, 'ws_attempt', False):
                    raise V(ex, 'disallowed-transport-used', 'websocket-accepted',
                            'session %d: the server answered a GET with WebSocket events '
                            'although transports=%s' % (s.ord, ex.config.get('transports')))
        if not poll_ok:
            for r in [s.open_req] + s.polls:
                if r is not None and r.done and r.status == 200 and \
                        'transport=websocket' not in r.query:
                    raise V(ex, 'disallowed-transport-used', 'polling-200',
                            'session %d: polling request answered 200, transports=%s' % (
                                s.ord, ex.config.get('transports')))
        # second upgrade attempts on an upgraded session are refused
        for att in s.upg_attempts:
            if att.get('had_main') and att['conn'].accepted and not att.get('main_was_dead'):
                raise V(ex, 'second-upgrade-accepted', s.kind,
                        'session %d: an upgrade request on an already upgraded session was '
                        'accepted' % s.ord)
        # messages never travel on a socket whose handshake did not complete
        for (t, via, pt, payload, where) in s.received:
            if via == 'upg' and pt == 4:
                raise V(ex, 'message-on-unfinished-upgrade-socket', 'upg',
                        'session %d: MESSAGE %r written to an upgrade socket before the '
                        'handshake completed' % (s.ord, payload))
    # nothing about an upgrade attempt may end a session: a disconnect event needs a cause
    from props.c05 import explicit_causes
    for s in ex.sessions:
        evs = ex.events_for(s)
        disc = [(t, a) for t, e, a in evs if e == 'disconnect']
        if not disc or s.vanished or s.causes or explicit_causes(ex, s):
            continue
        if disc[0][0] > getattr(s, 't_open', 0) + ex.I + ex.T - 1e-6:
            continue            # a heartbeat / poll / read timeout was possible by then (the
                                # exact liveness bookkeeping is C07's business)
        if any(p.t_start + ex.I + ex.T <= disc[0][0] + 1e-6 for p in s.polls):
            continue
        conns = [s.open_conn, s.main_ws, s.upg] + [a['conn'] for a in s.upg_attempts]
        if any(c is not None and (c.peer_closed or c.failed) for c in conns):
            continue            # the client closed / lost one of its sockets: a cause
        if any(getattr(c, 'role', None) == 'raw' for c in ex.world.conns):
            continue
        raise V(ex, 'session-ended-without-cause', '%s|%s|after-%s' % (
            disc[0][1], 'upgraded' if s.main_ws is not None else 'polling', last_att_class(s)),
            'session %d got disconnect %r at %.3f although nothing ended it (upgrade attempts: '
            '%s)' % (s.ord, disc[0][1], disc[0][0] - 2 ** 20,
                     [att_class(a) + ('/2nd' if a.get('had_main') else '')
                      for a in s.upg_attempts]))
    # transport() agrees with the model at quiet points
    n = len(ex.actions)
    if final or n in ex.quiet_points:
        for s in ex.sessions:
            sid = ex.sid_of(s)
            if sid is None or not live_quiet(ex, s):
                continue
            want = expected_transport(ex, s)
            if want is None:
                continue
            c = ex.world.call('transport', sid)
            ex.world.settle()
            if not c.done:
                continue
            if isinstance(c.exc, KeyError):
                raise V(ex, 'session-lost-after-handshake', last_att_class(s),
                        'session %d: transport() raised KeyError although nothing ended the '
                        'session (attempts: %s)' % (s.ord, [att_class(a) for a in s.upg_attempts]))
            if c.exc is not None:
                continue
            if c.result != want:
                raise V(ex, 'transport-disagrees-with-handshake',
                        '%s-not-%s|%s' % (c.result, want, last_att_class(s)),
                        'session %d: transport() says %s, the frames sent say %s (attempts: %s)'
                        % (s.ord, c.result, want, [att_class(a) for a in s.upg_attempts]))
    if final:
        for s in ex.sessions:
            seen = {}
            for g in c03.received_msgs(s):
                seen[g['tag']] = g
            try:
                c03.check_complete(ex, s, seen)
            except Violation as v:
                raise V(ex, 'queued-message-lost-after-handshake', v.trigger, v.detail)


def last_att_class(s):
    return att_class(s.upg_attempts[-1]) if s.upg_attempts else 'no-attempt'


PROFILE = {
    'world_kw_st': st.fixed_dictionaries({
        'timer_jitter': st.sampled_from([0.0, 0.0, 2.0 ** -12]),   # timers fire slightly late
        # handlers that take time: a handshake then runs while a handler is still busy
        'handler_delay': st.sampled_from([{}, {}, {}, {'message': 0.25}, {'disconnect': 0.25},
                                          {'message': 0.25, 'disconnect': 0.25}])}),
    'client_flavours': ['plain', 'plain', 'plain', 'plain', 'jsonp', 'gzip', 'jsonp+gzip'],
    'weights': {'open': 3, 'poll': 4, 'post': 1, 'probe_step': 10, 'upg_connect': 1, 'upg_swap': 3, 'ws_send': 2,
                'ws_close': 2, 'ws_fail': 1, 'pong': 1, 'app_send': 5, 'advance': 2},
    'max_sessions': 3,
    'packet_kinds': [('msg', 4), ('pong', 1), ('upgrade', 1)],
    'post_modes': [('pkts', 1)],
    'declared_delta': [0],
    'config': {'http_compression': st.sampled_from([True, False]),
               'compression_threshold': st.sampled_from([0, 1024]),
               'transports': st.sampled_from([None, None, None, ['polling', 'websocket'],
                                              ['polling'], ['websocket']]),
               'allow_upgrades': st.sampled_from([True, True, True, False]),
               'max_http_buffer_size': st.sampled_from([1000000, 1000000, 100]),
               'ping_interval': st.sampled_from([5, 25, 25]),
               'ping_timeout': st.sampled_from([5, 20, 20])},
    'wrong_step_pct': 3,
    'autopong': [True],
    'open_transports': ['polling', 'polling', 'polling', 'websocket'],
    'odd_upgrade_hdr_pct': 25,
    'stale_socket_pct': 15,      # a second upgrade socket that stays silent next to the handshake
    'probe_spellings_pct': 15,
}


def summarize(ex):
    cls = set()
    nt = False
    for s in ex.sessions:
        for i, att in enumerate(s.upg_attempts):
            k = att_class(att)
            cls.add('attempt-' + k.split(':')[0])
            if att.get('had_main'):
                cls.add('second-attempt-on-upgraded')
                nt = True
            if k != 'complete' and (i + 1 < len(s.upg_attempts) or
                                    any(p.t_start >= att['t'] for p in s.polls)):
                nt = True
                cls.add('failed-then-more')
            if any(x['upg_state'] == 'open' for x in s.app_sent) or \
                    any(p._upg_state == 'open' for p in s.polls):
                nt = True
                cls.add('interleaved-handshake')
            if att.get('promoted'):
                cls.add('upgrade-completed')
            if att['conn'].peer_closed or att['conn'].failed:
                cls.add('upgrade-socket-closed-by-client')
            if getattr(att['conn'], '_odd_upgrade', None):
                cls.add('upgrade-header-not-exactly-websocket')
        if any(getattr(p, '_odd_upgrade', None) for p in s.polls):
            cls.add('upgrade-header-not-exactly-websocket')
    return {'sessions': len(ex.sessions),
            'attempts': sum(len(s.upg_attempts) for s in ex.sessions)}, nt, sorted(cls)


def run_shard(ctx):
    quick = ctx.tier == 'quick'
    history_property(ctx, ID, PROFILE, [monitor], summarize,
                     max_examples=200 if quick else 3000, steps=30 if quick else 60)


def replay(case, ctx):
    run_trace(ID, case, [monitor])
