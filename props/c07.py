"""C07 - Heartbeat: periodic PING, dead peers dropped in bounded time, live peers never."""
from hypothesis import strategies as st

from vk.runner import Violation
from vk.histories import history_property, run_trace
from vk.clock import TICK

ID = 'C07'
LEVEL = 'exploration'
RULE = ('Hypothesis draws (ping_interval, ping_timeout, grace) from a grid including fractional and '
        'equal values, monitor on/off, 1..4 sessions (WebSocket or polling with a poll always '
        'pending), per session a peer profile - PONG delay in {0, T/2, T-e, T, T+e, 2T} or never '
        'answering or vanishing - and a schedule of application sends, manual PONGs, other client traffic (MESSAGE posts / frames, also from peers that never answer the PING) and clock '
        'steps placed just before / at / just after the next server deadline; plus populations of 1..n concurrent sessions (live bystanders, peers that never answer) while a new session appears every T/8..3T/4 for longer than the bound. Oracle (virtual '
        'time, tolerance 1e-6): PINGs are observed exactly at open+I and at every PONG+I and '
        'nowhere else; a peer whose every PONG arrived within T-e is never disconnected and a ping '
        'timeout is only declared for a PING outstanding for more than T; a peer that never answers is '
        'disconnected with a timeout reason by open+I+3T with monitoring on, and at the first '
        'send after ping+T in any case; no poll is held longer than I+T and a timed-out poll '
        'closes its session. Non-trivial: a PONG within e of the deadline, or a silent-peer '
        'detection, or a send within e of a deadline. Distinct: hash of (impl, config, '
        'abbreviated actions, observations).')
ASSUMPTIONS = ['same kernel assumptions as C03',
               'a PONG arriving exactly at the deadline on an asyncio WebSocket coincides with the '
               "reader's own I+T read timeout: open cell there"]
TOL = 1e-6
TIME_REASONS = {'ping timeout', 'transport error', 'transport close'}


def V(ex, clause, trigger, detail):
    return Violation(ID, ex.impl, clause, trigger, detail)


def rel(t):
    return t - 2 ** 20


def facts(ex, s):
    evs = ex.events_for(s)
    t_open = next((t for t, e, _ in evs if e == 'connect'), None)
    disc = next(((t, a) for t, e, a in evs if e == 'disconnect'), None)
    return evs, t_open, disc


def reading_always(s, T=None):
    """The client sees every PING (almost) when it is emitted: WebSocket, or polling with a poll
    always pending; upgrade handshakes count if each was over within T/4 (PINGs emitted meanwhile
    wait in the queue until the handshake ends)."""
    if s.kind == 'websocket':
        return True
    if not s.autopoll:
        return False
    for att in s.upg_attempts:
        if T is None:
            return False
        conn = att['conn']
        end = att.get('promoted')
        for cand in (getattr(conn, 't_end', None), getattr(conn, 't_peer_closed', None)):
            if cand is not None:
                end = cand if end is None else min(end, cand)
        if end is None or end - att['t'] > T / 4:
            return False
    return True


def monitor(ex, final):
    from props.c05 import explicit_causes
    I, T = ex.I, ex.T
    for s in ex.sessions:
        if ex.sid_of(s) is None or not s.expect_accept:
            continue
        evs, t_open, disc = facts(ex, s)
        if t_open is None:
            continue
        t_end = disc[0] if disc else None
        cls = getattr(s, 'pong_class', None)
        explicit = bool(s.causes) or bool(explicit_causes(ex, s))
        # (a) PING times
        if reading_always(s) and not s.vanished:
            horizon = min(t_end, ex.now) if t_end is not None else ex.now
            expected = [t_open + I] + [tp + I for tp in s.pongs
                                       if (t_end is None or tp <= t_end)]
            for tp in s.pings:
                if not any(abs(tp - e) <= TOL for e in expected):
                    raise V(ex, 'ping-at-unexpected-time', kind_of(s),
                            'session %d: PING observed at %.4f; expected times %s (open %.4f, '
                            'PONGs %s)' % (s.ord, rel(tp), [round(rel(e), 4) for e in expected],
                                           rel(t_open), [round(rel(p), 4) for p in s.pongs]))
            for e in expected:
                if e < horizon - TOL and not any(abs(tp - e) <= TOL for tp in s.pings):
                    if not s.client_closed or e < last_seen(s) - TOL:
                        raise V(ex, 'ping-missing', kind_of(s),
                                'session %d: no PING at %.4f (open %.4f, interval %s, PONGs %s, '
                                'PINGs seen %s)' % (s.ord, rel(e), rel(t_open), I,
                                                    [round(rel(p), 4) for p in s.pongs],
                                                    [round(rel(p), 4) for p in s.pings]))
        # (b) live peers are never dropped
        # (a PONG exactly at the deadline makes the next PING coincide with the I+T timeout of
        # the poll / writer / reader that waits for it: open cell, see (e) for the comparison)
        quick_upgrades = bool(s.upg_attempts)
        if s.autopong and not s.vanished and not explicit and (
                (cls in ('0', 'T/2', 'T-e') and reading_always(s) and not s.manual_pongs) or
                (cls == '0' and reading_always(s, T))):
            if disc is not None:
                raise V(ex, 'live-peer-disconnected', '%s|pong=%s|%s' % (kind_of(s), cls, disc[1]),
                        'session %d answered every PING after %s (T=%s) but was disconnected at '
                        '%.4f with %r; PINGs %s PONGs %s' % (
                            s.ord, cls, T, rel(disc[0]), disc[1],
                            [round(rel(p), 4) for p in s.pings],
                            [round(rel(p), 4) for p in s.pongs]))
        # (e) a 'ping timeout' needs a PING that has been outstanding for MORE than T
        if disc is not None and disc[1] == 'ping timeout':
            exp = [t_open + I] + [tp + I for tp in s.pongs if tp < disc[0]]
            sent = [e for e in exp if e <= disc[0] + TOL]
            if not any(disc[0] - e > T for e in sent):     # the very comparison the statement makes
                raise V(ex, 'ping-timeout-before-deadline', '%s|pong=%s' % (kind_of(s), cls),
                        'session %d: ping timeout at %.4f, PINGs sent at %s, T=%s: none was '
                        'outstanding for more than T' % (s.ord, rel(disc[0]),
                                                         [round(rel(e), 4) for e in sent], T))
        # (c) silent peers are dropped in bounded time
        silent = (not s.autopong) and not s.pongs
        if silent and not explicit:
            limit = t_open + I + 3 * T
            if ex.config.get('monitor_clients', True) and ex.now > limit + TOL:
                if disc is None or disc[0] > limit + TOL:
                    raise V(ex, 'silent-peer-not-dropped-in-time', kind_of(s),
                            'session %d never answered; open %.4f, I=%s T=%s, bound %.4f; '
                            'disconnect %s' % (s.ord, rel(t_open), I, T, rel(limit),
                                               (round(rel(disc[0]), 4), disc[1]) if disc
                                               else None))
            for x in s.app_sent:
                if x['t'] > t_open + I + T + TOL and x['call'].done and x.get('settled', True):
                    if disc is None or disc[0] > x['t'] + TOL:
                        raise V(ex, 'send-after-deadline-did-not-drop-peer', kind_of(s),
                                'session %d never answered the PING of %.4f; send() at %.4f did '
                                'not end it (disconnect %s)' % (
                                    s.ord, rel(t_open + I), rel(x['t']),
                                    (round(rel(disc[0]), 4), disc[1]) if disc else None))
                    break
            if disc is not None and disc[1] not in TIME_REASONS:
                raise V(ex, 'silent-peer-wrong-reason', str(disc[1]),
                        'session %d only went silent, disconnect reason %r' % (s.ord, disc[1]))
        # (d) polls are never held longer than I + T
        for p in s.polls:
            end = p.t_end if p.done else ex.now
            if end - p.t_start > I + T + TOL:
                raise V(ex, 'poll-held-too-long', 'done' if p.done else 'pending',
                        'session %d: poll started %.4f %s %.4f (I+T=%s)' % (
                            s.ord, rel(p.t_start), 'answered' if p.done else 'still pending at',
                            rel(end), I + T))
            if p.done and p.status == 400 and abs((p.t_end - p.t_start) - (I + T)) <= TOL:
                if disc is None or disc[0] > p.t_end + TOL:
                    raise V(ex, 'timed-out-poll-left-session-open', kind_of(s),
                            'session %d: poll timed out at %.4f but no disconnect event' % (
                                s.ord, rel(p.t_end)))


def last_seen(s):
    return max([t for (t, via, pt, p, w) in s.received] or [0])


def kind_of(s):
    return 'ws' if s.main_ws is not None else 'polling'


def install(ex):
    pass


PROFILE = {
    'weights': {'open': 3, 'poll': 0, 'app_send': 5, 'advance': 8, 'pong': 2, 'vanish': 1,
                'probe_step': 3, 'post': 3, 'ws_send': 2, 'fault': 1},   # (handler exceptions)
    # other client traffic (MESSAGE packets only): it neither replaces a PONG nor harms a live peer
    'packet_kinds': [('msg', 1)],
    'post_modes': [('pkts', 1)],
    'declared_delta': [0],
    'wrong_step_pct': 1,
    'max_sessions': 4,
    'config': {'ping_interval': st.sampled_from([1, 2.5, 5, 25, [1, 0.5], [5, 5], [2.5, 0]]),
               'ping_timeout': st.sampled_from([1, 2.5, 5, 20]),
               'transports': st.just(None),
               'monitor_clients': st.sampled_from([True, True, False]),
               'allow_upgrades': st.just(True)},
    'autopong': [True, True, True, False],
    'autopoll': [True],
    'pong_delays': ['0', 'T/2', 'T-e', 'T-e', 'T', 'T', 'T+e', '2T'],
    'advance_modes': [('grid', 2), ('deadline', 6), ('long', 1)],
    'settle': [True],
    'keep_policies': True,
    'horizon': (2, 5),
}


def summarize(ex):
    cls = set()
    nt = False
    for s in ex.sessions:
        c = getattr(s, 'pong_class', None)
        if c:
            cls.add('pong-' + c)
        if c in ('T-e', 'T', 'T+e') and s.pongs:
            nt = True
        evs, t_open, disc = facts(ex, s)
        if disc and disc[1] in TIME_REASONS:
            cls.add('detected-' + disc[1].replace(' ', '-'))
            nt = True
        if not s.autopong:
            cls.add('never-answers')
        if s.vanished:
            cls.add('vanished')
        cls.add('session-' + kind_of(s))
        for x in s.app_sent:
            for tp in s.pings:
                if abs(x['t'] - (tp + ex.T)) <= 2 * TICK:
                    nt = True
                    cls.add('send-near-deadline')
    return {'sessions': len(ex.sessions),
            'pings': sum(len(s.pings) for s in ex.sessions)}, nt, sorted(cls)


# -- many concurrent sessions with the table changing all the time ----------------------------
churn_case = st.fixed_dictionaries({
    'churn': st.just(True),
    'impl': st.sampled_from(['thread', 'async']),
    'I': st.sampled_from([1, 2.5]), 'T': st.sampled_from([1, 2.5]),
    'bystanders': st.sampled_from([0, 2, 3, 5]),        # live peers opened first
    'victims': st.integers(1, 2),                       # peers that never answer, opened next
    'period': st.sampled_from(['T/8', 'T/4', 'T/2', '3T/4']),   # a new peer appears this often
    'newcomer': st.sampled_from(['silent', 'silent', 'closes']),
    # the application keeps sending to the first silent peer: a long backlog nobody reads
    'backlog': st.sampled_from([0, 0, 0, 0, 0, 1100]),
})


def check_churn(case, ctx=None):
    """Dead peers among 1..n concurrent sessions, while sessions keep coming (and, once they time
    out, going): each peer that never answered is dropped within ping_interval + 3 x
    ping_timeout, every peer that answers stays."""
    from vk.machine import Exec
    from vk import refmodel as rm
    I, T = case['I'], case['T']
    ex = Exec(case['impl'], {'ping_interval': I, 'ping_timeout': T, 'monitor_clients': True,
                             'http_compression': False})
    rep = dict(case)
    period = {'T/8': T / 8, 'T/4': T / 4, 'T/2': T / 2, '3T/4': 3 * T / 4}[case['period']]
    try:
        for _ in range(case['bystanders']):
            ex.do({'op': 'open', 'transport': 'polling', 'autopong': True, 'autopoll': True})
        for _ in range(case['victims']):
            ex.do({'op': 'open', 'transport': 'polling', 'autopong': False, 'autopoll': False})
        if case.get('backlog'):
            v = ex.sessions[case['bystanders']]
            sid = ex.sid_of(v)
            for k in range(case['backlog']):
                ex.world.call('send', sid, 'backlog%d' % k)
            ex.world.settle()
        t0 = ex.now
        n_live = case['bystanders']
        while ex.now < t0 + I + 3 * T + 2 * period:
            ex.do({'op': 'advance', 'dt': period})
            ex.do({'op': 'open', 'transport': 'polling', 'autopong': False, 'autopoll': False})
            if case['newcomer'] == 'closes':
                ex.do({'op': 'post', 's': len(ex.sessions) - 1, 'pkts': [[1, rm.tag(None)]]})
        ex.do({'op': 'advance', 'dt': TICK})
        late, dropped = [], 0
        for s in ex.sessions:
            evs, t_open, disc = facts(ex, s)
            if t_open is None:
                continue
            if s.autopong:
                if disc is not None:
                    raise Violation(ID, ex.impl, 'live-peer-disconnected', 'polling|churn|%s' % (
                        disc[1],), 'session %d answers every PING but was disconnected at %.3f '
                        '(%r) while other sessions came and went' % (s.ord, rel(disc[0]), disc[1]),
                        rep)
                continue
            if disc is not None:
                dropped += 1
            limit = t_open + I + 3 * T
            if ex.now > limit + TOL and (disc is None or disc[0] > limit + TOL):
                late.append((s.ord, round(rel(t_open), 3), disc and round(rel(disc[0]), 3)))
        if late:
            raise Violation(ID, ex.impl, 'silent-peer-not-dropped-in-time', 'polling|churn',
                            '%d of %d sessions that never answered were not dropped within I + 3T '
                            '(I=%s T=%s, a new session every %s): (session, opened, dropped) %s' % (
                                len(late), len(ex.sessions) - n_live, I, T, case['period'],
                                late[:6]), rep)
        if ctx:
            ctx.case(rep, True, ['churn', ex.impl, 'bystanders=%d' % case['bystanders'],
                                 'newcomers-' + case['newcomer'], 'period-' + case['period']] + (
                ['backlog-of-1100-unread-packets'] if case.get('backlog') else []) + [
                                 'dropped>=5' if dropped >= 5 else 'dropped<5'])
    finally:
        ex.close()


def run_shard(ctx):
    quick = ctx.tier == 'quick'
    from vk.runner import run_given
    run_given(ctx, churn_case, lambda c: check_churn(c, ctx), max_examples=6 if quick else 60)
    history_property(ctx, ID, PROFILE, [monitor], summarize,
                     max_examples=200 if quick else 3000, steps=25 if quick else 50)


def replay(case, ctx):
    if case.get('churn'):
        return check_churn(case)
    run_trace(ID, case, [monitor])
