"""C08 - Client connection lifecycle: one connect, one disconnect, clean reusable state."""
from hypothesis import strategies as st

from vk.runner import Violation, run_given
from vk.clientworld import TClientHarness, AClientHarness

ID = 'C08'
LEVEL = 'exploration'
RULE = ('Hypothesis draws a client kind (Client under the baton scheduler, AsyncClient on the '
        'virtual-time loop), a transport list, and a fault script applied at the client I/O '
        'boundary in front of the real server of the same kind: the n-th HTTP request is refused, '
        'answered with an error status (with / without JSON), with an undecodable / empty / '
        'non-OPEN body, hangs, or is dropped after the server processed it (also addressed to the n-th POST only: a failed POST must end the connection); the WebSocket connect '
        'is refused; the n-th frame received is dropped, replaced (wrong probe answer, garbage), '
        'swallowed or followed by silence; a send drops the connection - plus an application '
        'script: sends both ways, clock steps, disconnect() by client or server at any point '
        'including from inside the connect / message / disconnect handlers, send()/disconnect() '
        'while not connected, and a reconnect at the end (on which a send must arrive and a heartbeat be answered); client handlers may take virtual time. Oracle: connect() returns (one connect '
        'event, sid / transport / heartbeat timing as announced) or raises ConnectionError '
        '(disconnected, sid None) within bounded time; per established connection exactly one '
        'disconnect event with an allowed reason; afterwards state disconnected, sid None, no '
        'further events, wait() returns, reconnect works; calls on a disconnected client are '
        'no-ops. Non-trivial: a fault fired, or a disconnect from inside a handler, or >= 2 '
        'connect cycles. Distinct: hash of the case.')
ASSUMPTIONS = ['same kernel assumptions as C03', 'fake requests / websocket-client / aiohttp session '
               'objects follow the documented contracts of those libraries',
               'an OPEN packet whose JSON lacks the handshake fields is outside the stated domain']


def V(impl, clause, trigger, detail, case):
    return Violation(ID, impl, clause, trigger, detail, case)


http_fault = st.one_of(
    st.fixed_dictionaries({'on': st.just('http'), 'n': st.sampled_from([0, 0, 0, 1, 1, 2, 3, 4, 5, 6]),
                           'kind': st.sampled_from(['refuse', 'hang', 'drop-after'])}),
    st.fixed_dictionaries({'on': st.just('http'), 'n': st.sampled_from([0, 0, 0, 1, 1, 2, 3, 4, 5, 6]), 'kind': st.just('status'),
                           'status': st.sampled_from([400, 401, 403, 404, 500, 502, 301, 199]),
                           'body': st.sampled_from(['oops', '{"message": "no"}', '"text"', '', '{']),
                           'ctype': st.sampled_from(['text/plain', 'application/json'])}),
    st.fixed_dictionaries({'on': st.just('http'), 'n': st.sampled_from([0, 0, 0, 1, 1, 2, 3, 4, 5, 6]), 'kind': st.just('garbage'),
                           'body': st.sampled_from(['garbage', '', '4hello', '6', '\x1e', '0', '0{',
                                                    '1', 'b', '٣', '0[1,2]'])}),
)
post_fault = st.one_of(
    st.fixed_dictionaries({'on': st.just('http-post'), 'n': st.sampled_from([0, 0, 0, 1, 1, 2, 3]),
                           'kind': st.sampled_from(['refuse', 'drop-after'])}),
    st.fixed_dictionaries({'on': st.just('http-post'), 'n': st.sampled_from([0, 0, 0, 1, 1, 2, 3]), 'kind': st.just('status'),
                           'status': st.sampled_from([400, 413, 500, 301, 199]),
                           'body': st.sampled_from(['oops', '{"message": "no"}', '']),
                           'ctype': st.sampled_from(['text/plain', 'application/json'])}),
)
# from the k-th request on the peer is a server that never times a client out: GETs are answered
# with a PING every 2.5 seconds, POSTs with ok (or as a fault addressed to that POST says)
lenient_fault = st.fixed_dictionaries({'on': st.just('http'), 'from': st.integers(2, 4),
                                       'kind': st.just('lenient'), 'every': st.just(2.5)})
ws_fault = st.one_of(
    st.fixed_dictionaries({'on': st.just('ws-connect'), 'n': st.integers(0, 1),
                           'kind': st.sampled_from(['refuse', 'bad-status'])}),
    st.fixed_dictionaries({'on': st.just('ws-recv'), 'n': st.integers(0, 5),
                           'kind': st.sampled_from(['drop', 'swallow', 'silence'])}),
    st.fixed_dictionaries({'on': st.just('ws-recv'), 'n': st.integers(0, 5), 'kind': st.just('replace'),
                           'frame': st.sampled_from(['3nope', '3', '6', '4x', '', 'x', '1', '7',
                                                     '0{}', '2probe'])}),
    st.fixed_dictionaries({'on': st.just('ws-send'), 'n': st.integers(0, 5), 'kind': st.just('drop')}),
)
step_st = st.one_of(
    st.fixed_dictionaries({'do': st.sampled_from(['csend', 'ssend']), 'n': st.integers(1, 4)}),
    st.fixed_dictionaries({'do': st.just('advance'),
                           'dt': st.sampled_from([0.25, 1.0, 3.0, 10.0, 40.0])}),
    st.fixed_dictionaries({'do': st.sampled_from(['client_disconnect', 'server_disconnect',
                                                  'noop_calls', 'connect_again'])}),
)


@st.composite
def case_st(draw):
    return {
        'impl': draw(st.sampled_from(['thread', 'async'])),
        'transports': draw(st.sampled_from([None, None, ['polling'], ['websocket']])),
        'I': draw(st.sampled_from([2.5, 5, 25])), 'T': draw(st.sampled_from([2.5, 5, 20])),
        'faults': draw(st.one_of(
            st.lists(st.one_of(http_fault, ws_fault, post_fault), max_size=2),
            st.lists(st.one_of(http_fault, ws_fault, post_fault), max_size=2),
            st.lists(st.one_of(http_fault, ws_fault, post_fault), max_size=2),
            st.tuples(lenient_fault, post_fault).map(list))),
        'in_handler': draw(st.sampled_from([None, None, None, 'connect', 'message', 'disconnect'])),
        'server_greets': draw(st.sampled_from([0, 0, 1, 2])),
        'steps': draw(st.lists(step_st, max_size=6)),
        # client handlers that take (virtual) time: the event is logged when the handler starts
        # AsyncClient without an http_session of the caller: it creates its own session and
        # closes it at the end of every connection
        'own_session': draw(st.sampled_from([False, False, True])),
        'client_delay': draw(st.sampled_from([{}, {}, {}, {'message': 0.25}, {'disconnect': 0.25},
                                              {'connect': 0.25},
                                              {'message': 0.25, 'disconnect': 0.25}])),
    }


def _check_case(case, ctx=None):
    import engineio
    impl = case['impl']
    rep = dict(case)
    cfg = {'ping_interval': case['I'], 'ping_timeout': case['T'], 'http_compression': False}
    H = TClientHarness if impl == 'thread' else AClientHarness
    if impl == 'async' and case.get('own_session'):
        h = H(cfg, faults=case['faults'], own_session=True)
    else:
        h = H(cfg, faults=case['faults'])
    h.handler_delay = dict(case.get('client_delay') or {})
    h.world.app_log.connect_sends = ['greeting%d' % i for i in range(case.get('server_greets', 0))]
    cl = h.client
    I, T = case['I'], case['T']
    horizon = I + T + 5 + 5 + 2
    ftrig = '+'.join(sorted('%s:%s' % (f['on'], f['kind']) for f in case['faults'])) or 'no-fault'
    connections = []          # per successful connect: index into log.events of its connect event
    try:
        ih = case.get('in_handler')
        fired_ih = []

        def on_event(ev, arg):
            if ih == ev and not fired_ih:
                fired_ih.append(h.clock.now)
                if impl == 'thread':
                    cl.disconnect()
                else:
                    return cl.disconnect()          # awaited by the handler itself
        if ih:
            h.log.on_event = on_event

        def do_connect(label):
            n_ev = len(h.log.events)
            c = h.client_call('connect', 'http://localhost:5000', transports=case['transports'])
            h.run_until(lambda: c.done, horizon)
            if not c.done:
                raise V(impl, 'connect-never-returns', ftrig + '|' + label,
                        'connect() still pending %.1fs later; client state %s' % (
                            horizon, cl.state), rep)
            new = h.log.events[n_ev:]
            nconn = sum(1 for _, e, _ in new if e == 'connect')
            if c.exc is None:
                if nconn != 1:
                    raise V(impl, 'connect-event-count', '%d|%s' % (nconn, ftrig),
                            'connect() returned but %d connect events fired' % nconn, rep)
                connections.append(n_ev)
                return True
            openish = any(str(f.get('body', f.get('frame', ''))).startswith('0')
                          for f in case['faults'])
            if isinstance(c.exc, (KeyError, TypeError, ValueError)) and openish and \
                    not isinstance(c.exc, engineio.exceptions.ConnectionError):
                return False    # an OPEN packet without the handshake fields: outside the domain
            if not isinstance(c.exc, engineio.exceptions.ConnectionError):
                raise V(impl, 'connect-raised-other-exception',
                        '%s|%s' % (type(c.exc).__name__, ftrig),
                        'connect() raised %r instead of ConnectionError' % (c.exc,), rep)
            if nconn and not any(e == 'disconnect' for _, e, _ in new):
                raise V(impl, 'connect-failed-after-connect-event', ftrig,
                        'connect() raised %r after firing the connect event' % (c.exc,), rep)
            if cl.state != 'disconnected' or cl.sid is not None:
                raise V(impl, 'failed-connect-left-state', '%s|%s' % (cl.state, ftrig),
                        'after ConnectionError: state %r sid %r' % (cl.state, cl.sid), rep)
            return False

        ok = do_connect('first')
        if ok and not fired_ih:
            srv_connect = [e for e in h.world.app_log.events if e[1] == 'connect']
            sid = srv_connect[-1][2] if srv_connect else None
            if cl.state == 'connected':
                if cl.sid != sid:
                    raise V(impl, 'sid-not-adopted', ftrig, 'client sid %r, server %r' % (
                        cl.sid, sid), rep)
                if cl.ping_interval != I or cl.ping_timeout != T:
                    raise V(impl, 'heartbeat-timing-not-adopted', ftrig,
                            'client %r/%r, server %r/%r' % (cl.ping_interval, cl.ping_timeout, I, T),
                            rep)
        seq = [0]
        cycles = 1 if ok else 0
        explicit_end = []
        for stp in case['steps']:
            k = stp['do']
            if k == 'csend':
                for _ in range(stp['n']):
                    seq[0] += 1
                    h.client_call('send', 'c%d' % seq[0])
                h.settle()
            elif k == 'ssend':
                for _ in range(stp['n']):
                    seq[0] += 1
                    if cl.sid:
                        h.world.call('send', cl.sid, 's%d' % seq[0])
                h.settle()
            elif k == 'advance':
                h.advance(stp['dt'])
            elif k == 'client_disconnect':
                if cl.state == 'connected':
                    explicit_end.append(('client', h.clock.now))
                d = h.client_call('disconnect')
                h.settle()
                h.advance(horizon)
                if not d.done:
                    raise V(impl, 'disconnect-never-returns', ftrig,
                            'disconnect() pending %.1fs later (state %s)' % (horizon, cl.state), rep)
                if d.exc is not None:
                    raise V(impl, 'disconnect-raised', type(d.exc).__name__ + '|' + ftrig,
                            'disconnect() raised %r' % (d.exc,), rep)
            elif k == 'server_disconnect':
                if cl.sid:
                    explicit_end.append(('server', h.clock.now))
                    h.world.call('disconnect', cl.sid)
                    h.settle()
                    h.advance(horizon)
            elif k == 'noop_calls':
                if cl.state == 'disconnected':
                    n_ev = len(h.log.events)
                    a = h.client_call('send', 'ignored')
                    b = h.client_call('disconnect')
                    h.settle()
                    for c in (a, b):
                        if not c.done or c.exc is not None:
                            raise V(impl, 'call-on-disconnected-client-not-noop', c.name,
                                    '%s(): done=%s exc=%r' % (c.name, c.done, c.exc), rep)
                    if len(h.log.events) != n_ev or cl.state != 'disconnected':
                        raise V(impl, 'call-on-disconnected-client-not-noop', 'events',
                                'events %r state %r' % (h.log.events[n_ev:], cl.state), rep)
            elif k == 'connect_again':
                if cl.state == 'disconnected':
                    if do_connect('again'):
                        cycles += 1
        # a failed POST is a failed transport: the connection it belonged to ends
        failed_posts = [f for f in h.faults.fired
                        if f.get('method') == 'POST' and f.get('state') == 'connected' and
                        f['kind'] in ('refuse', 'drop-after', 'status')]
        if failed_posts:
            # (a real server ends the session by heartbeat in the end; one that never gives up
            # - fault 'lenient' - leaves it to the client)
            bound = I + T + max(I, T) + 12
            h.advance(bound)
            tf = failed_posts[-1]['t']
            ends = [t for t, e, _ in h.log.events if e == 'disconnect' and t >= tf]
            if not ends:
                raise V(impl, 'failed-post-did-not-end-connection',
                        '%s|state=%s' % (failed_posts[-1]['kind'], cl.state),
                        'a POST failed (%s) at %.3f; %.1fs later no disconnect event has fired, '
                        'state %r' % (failed_posts[-1]['kind'], tf - 2 ** 20, bound, cl.state),
                        rep)
        # final quiescence: end whatever is still up, then look at the wreckage
        h.faults.disabled = True
        if cl.state == 'connected':
            explicit_end.append(('client', h.clock.now))
            d = h.client_call('disconnect')
            h.settle()
        h.advance(2 * horizon)
        if cl.state != 'disconnected' or cl.sid is not None:
            raise V(impl, 'client-not-clean-after-end',
                    '%s|%s|in-handler=%s' % (cl.state, ftrig, case.get('in_handler')),
                    'at the end: state %r sid %r; events %r' % (
                        cl.state, cl.sid, [(e, a) for _, e, a in h.log.events]), rep)
        wt = h.client_call('wait')
        h.settle()
        h.advance(horizon)
        if not wt.done:
            raise V(impl, 'wait-never-returns', ftrig,
                    'wait() pending although the client is disconnected', rep)
        # event grammar per connection
        evs = [(e, a) for _, e, a in h.log.events]
        i = 0
        while i < len(evs):
            if evs[i][0] != 'connect':
                raise V(impl, 'event-outside-connection', evs[i][0] + '|' + ftrig,
                        'event log %r' % (evs,), rep)
            j = i + 1
            nd = 0
            while j < len(evs) and evs[j][0] != 'connect':
                if evs[j][0] == 'disconnect':
                    nd += 1
                elif nd:
                    # a message whose carrier (poll response / frame) had reached the client
                    # before the disconnect event may still be dispatched by its background
                    # handler afterwards; one received later may not
                    t_disc = [t for t, e, _ in h.log.events[:j] if e == 'disconnect'][-1]
                    tc = carrier_time(h, evs[j][1]) if evs[j][0] == 'message' else None
                    same_path = bool(fired_ih) and ih == 'connect' and \
                        abs(t_disc - fired_ih[0]) < 1e-9      # no other thread involved
                    if evs[j][0] != 'message' or tc is None or tc > t_disc or same_path:
                        raise V(impl, 'event-after-disconnect', evs[j][0] + '|' + (
                            'polling' if not h.log.ws or not h.log.ws[-1]['recv'] else 'ws'),
                            'event %r fired after the disconnect event (carrier received at '
                            '%s, disconnect at %.4f); log %r' % (
                                evs[j], tc and round(tc - 2 ** 20, 4), t_disc - 2 ** 20, evs), rep)
                j += 1
            if nd != 1:
                raise V(impl, 'disconnect-events-per-connection',
                        '%d|%s|in-handler=%s' % (nd, ftrig, case.get('in_handler')),
                        'a connection produced %d disconnect events: %r' % (nd, evs[i:j]), rep)
            i = j
        for e, a in evs:
            if e == 'disconnect' and a not in ('client disconnect', 'server disconnect',
                                               'transport error'):
                raise V(impl, 'unknown-disconnect-reason', str(a), 'reason %r' % (a,), rep)
        # reasons when nothing but one explicit end happened to a connection
        if not case['faults'] and not ih and cycles == 1 and len(explicit_end) == 1 and \
                not any(s['do'] == 'advance' and s['dt'] > min(I, T) for s in case['steps']):
            want = 'client disconnect' if explicit_end[0][0] == 'client' else 'server disconnect'
            got = [a for e, a in evs if e == 'disconnect']
            if want == 'server disconnect' and not close_packet_received(h):
                got = []        # the CLOSE packet never reached the client (no poll was pending
                                # when the server closed): any transport reason is fine
            if got and got[0] != want:
                raise V(impl, 'wrong-disconnect-reason', '%s->%s' % (explicit_end[0][0], got[0]),
                        'ended by the %s, handler was told %r' % (explicit_end[0][0], got[0]), rep)
        n_ev = len(h.log.events)
        h.advance(3 * (I + T))
        if len(h.log.events) != n_ev:
            raise V(impl, 'event-after-the-end', h.log.events[n_ev][1] + '|' + ftrig,
                    'events after everything ended: %r' % (h.log.events[n_ev:],), rep)
        if not do_connect('final'):
            raise V(impl, 'reconnect-failed', ftrig, 'connect() after the end failed', rep)
        # ... and the new connection works: a send arrives, the heartbeat is answered
        if not ih:
            n_srv = len(h.world.app_log.events)
            h.client_call('send', 'after-reconnect')
            h.advance(I + T + 1)
            got = [a for _, e, _, a in h.world.app_log.events[n_srv:] if e == 'message']
            srv_disc = [a for _, e, _, a in h.world.app_log.events[n_srv:] if e == 'disconnect']
            if got != ['after-reconnect'] or srv_disc or cl.state != 'connected':
                raise V(impl, 'reconnected-client-not-working',
                        '%s|%s' % ('send-lost' if got != ['after-reconnect'] else 'dropped', ftrig),
                        'after reconnecting: server got %r, server-side disconnects %r, client '
                        'state %r' % (got, srv_disc, cl.state), rep)
        if ctx:
            fired = [f['kind'] for f in h.faults.fired]
            nt = bool(fired) or bool(fired_ih) or cycles >= 2
            cls = [impl, 'first-connect-' + ('ok' if ok else 'refused'),
                   'transports-%s' % ('default' if case['transports'] is None
                                      else case['transports'][0])]
            cls += ['fault-' + k for k in sorted(set(fired))]
            if failed_posts:
                cls.append('post-failed-while-connected')
            if fired_ih:
                cls.append('disconnect-in-%s-handler' % ih)
            if cycles >= 2:
                cls.append('cycles>=2')
            for k in sorted(case.get('client_delay') or {}):
                cls.append('slow-client-%s-handler' % k)
            ctx.case(rep, nt, cls)
    finally:
        h.teardown()


def close_packet_received(h):
    for r in h.log.http:
        req = r.get('req')
        if req is not None and req.done and r.get('status') == 200 and r['method'] == 'GET':
            try:
                if '1' in [p[:1] for p in (req.resp_body or b'').decode().split('\x1e')
                           if len(p) == 1]:
                    return True
            except UnicodeDecodeError:
                pass
    for w in h.log.ws:
        if any(f == '1' for _, f in w['recv']):
            return True
    return False


def carrier_time(h, payload):
    """When did the client receive the response / frame that carried this message?"""
    needle = '4' + payload if isinstance(payload, str) else None
    best = None
    for r in h.log.http:
        req = r.get('req')
        if needle and req is not None and req.done and req.resp_body and \
                needle.encode() in req.resp_body:
            t = req.t_end
            best = t if best is None else min(best, t)
        # (what the client was actually handed may be a scripted replacement of the answer)
        content = r.get('content')
        if needle and isinstance(content, (bytes, bytearray)) and needle.encode() in content:
            t = req.t_end if req is not None and req.done else r['t']
            best = t if best is None else min(best, t)
    for w in h.log.ws:
        for t, f in w['recv']:
            if needle and f == needle:
                best = t if best is None else min(best, t)
    return best


def check_case(case, ctx=None):
    from vk import watchdog
    impl = case.get('impl', '?')
    watchdog.run_case(lambda: _check_case(case, ctx),
                      lambda msg: V(impl, 'step-never-completes', 'busy-loop', msg, dict(case)))


def run_shard(ctx):
    quick = ctx.tier == 'quick'
    run_given(ctx, case_st(), lambda c: check_case(c, ctx), max_examples=200 if quick else 4000)


def replay(case, ctx):
    check_case(case)
