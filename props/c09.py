"""C09 - Client protocol conduct: PONG echo, ordered exactly-once I/O, probe upgrade."""
import urllib.parse

from hypothesis import strategies as st

from vk.runner import Violation, run_given
from vk.clientworld import TClientHarness, AClientHarness
from vk import refmodel as rm

ID = 'C09'
LEVEL = 'exploration'
RULE = ('Hypothesis draws a client kind, a transport list, a connection URL (scheme http / https / '
        'ws / wss, host with or without port, path, query with repeated and percent-encoded '
        'parameters), an engineio_path, heartbeat settings, an application send sequence (text, '
        'JSON, binary) interleaved with server sends (also from the connect handler of the server, travelling with OPEN), and a script applied at the client I/O '
        'boundary in front of the real server: PING frames / packets with arbitrary data, NOOPs '
        'and unknown packet types injected, the probe answered wrongly or not at all, silence from '
        'a drawn point on (WebSocket: nothing more received; polling: requests hang); the judged '
        'connection may be the second or third of the same client object (earlier ones ended by '
        'client disconnect, server disconnect or a dropped socket plus a send). Oracle: one '
        'PONG with equal data per PING, in order; every server MESSAGE reaches the handler once, in '
        'arrival order; the server receives exactly the application sends, in order, binary as '
        'binary frames on WebSocket and b+base64 in polling bodies; request URLs = /<path>/ + '
        "caller's query + transport=..&EIO=4 (+sid, t) with http<->ws, https<->wss; websocket "
        'only after PING probe / PONG probe / UPGRADE, otherwise polling continues and nothing is '
        'lost; after silence a transport error disconnect within I + T (+5 on polling) + '
        'request_timeout. Non-trivial: an injected PING with data / unknown packet, a failed '
        'probe, a silence, or a URL with a query. Distinct: hash of the case.')
ASSUMPTIONS = ['same kernel assumptions as C03', 'fake requests / websocket-client / aiohttp session '
               'objects follow the documented contracts of those libraries']


def V(impl, clause, trigger, detail, case):
    return Violation(ID, impl, clause, trigger, detail, case)


payload_st = st.one_of(
    st.text(alphabet=st.sampled_from(list('ab"\\ {}[]:,0é') + ['\U0001f600']), max_size=6),
    st.binary(max_size=6), st.binary(min_size=1, max_size=6).map(bytearray),
    st.sampled_from([{'k': 1}, [1, 'a'], {'n': {'m': None}}]))
url_st = st.builds(
    lambda scheme, host, path, q: '%s://%s%s%s' % (scheme, host, path, ('?' + q) if q else ''),
    st.sampled_from(['http', 'https', 'ws', 'wss']),
    st.sampled_from(['localhost', 'localhost:5000', 'example.com:8443', '127.0.0.1:80']),
    st.sampled_from(['', '/', '/app', '/a/b/']),
    st.sampled_from(['', 'x=1', 'a=1&a=2', 'token=ab%20cd%26e', 'q=%C3%A9&empty=', 'eio=3',
                     'Transport=bogus', 'session=zzz', 'EIO=3']))
inject_st = st.one_of(
    st.fixed_dictionaries({'on': st.just('ws-recv'), 'n': st.integers(1, 6), 'kind': st.just('replace'),
                           'frame': st.sampled_from(['2xyz', '2', '2{"a":1}', '6', '7', '9zz', '6x',
                                                     '4injected'])}),
    st.fixed_dictionaries({'on': st.just('ws-recv'), 'n': st.just(0), 'kind': st.just('replace'),
                           'frame': st.sampled_from(['3nope', '3', '6', '2probe', '4probe'])}),
    st.fixed_dictionaries({'on': st.just('ws-recv'), 'n': st.just(0), 'kind': st.just('swallow')}),
    st.fixed_dictionaries({'on': st.just('ws-recv'), 'n': st.integers(1, 3), 'kind': st.just('silence')}),
    st.fixed_dictionaries({'on': st.just('http'), 'from': st.integers(2, 8), 'kind': st.just('hang')}),
    st.fixed_dictionaries({'on': st.just('http'), 'n': st.integers(1, 6), 'kind': st.just('garbage'),
                           'body': st.sampled_from(['2xyz', '2', '6', '7', '2a\x1e6\x1e2b', '9q'])}),
)


@st.composite
def case_st(draw):
    n = draw(st.integers(0, 8))
    steps = []
    for _ in range(n):
        k = draw(st.sampled_from(['csend', 'csend', 'ssend', 'advance', 'cburst', 'sburst']))
        if k in ('cburst', 'sburst'):
            steps.append({'do': k, 'data': [rm.tag(draw(payload_st))
                                            for _ in range(draw(st.sampled_from(
                                                [2, 3, 5, 16, 17, 20])))]})
        elif k == 'advance':
            steps.append({'do': 'advance', 'dt': draw(st.sampled_from([0.25, 1.0, 2.5, 5.0, 12.0]))})
        else:
            steps.append({'do': k, 'data': rm.tag(draw(payload_st))})
    return {
        'impl': draw(st.sampled_from(['thread', 'async'])),
        'transports': draw(st.sampled_from([None, None, ['polling'], ['websocket']])),
        'url': draw(url_st),
        'path': draw(st.sampled_from(['engine.io', 'engine.io', '/custom/', 'a/b', 'socket.io/'])),
        'I': draw(st.sampled_from([2.5, 5, 25])), 'T': draw(st.sampled_from([2.5, 5, 20])),
        'faults': draw(st.lists(inject_st, max_size=2)),
        'steps': steps,
        # earlier connections of the same client object (what a reconnecting application does),
        # each ended in the drawn way before the judged connection is made
        # messages the server's connect handler sends: they travel with the OPEN packet
        'server_greets': draw(st.sampled_from([0, 0, 0, 1, 2, 3])),
        # the caller's request_timeout (default 5): it bounds every single HTTP request, it is
        # not part of the silence bound
        'request_timeout': draw(st.sampled_from([5, 5, 5, 1, 20, 60])),
        # websocket_extra_options of the caller (threaded client): a timeout of its own for the
        # WebSocket connection attempt - the heartbeat deadline still governs the reads after it
        'ws_timeout_opt': draw(st.sampled_from([None, None, None, 60, 120])),
        'prelude': draw(st.sampled_from([[], [], [], ['cdisc'], ['sdisc'], ['drop'],
                                         ['drop', 'cdisc'], ['sdisc', 'drop']])),
    }


def packets_of_body(body):
    if isinstance(body, bytes):
        body = body.decode('utf-8')
    return [p for p in (body or '').split(rm.SEP) if p != '']


def _check_case(case, ctx=None):
    impl = case['impl']
    rep = dict(case)
    I, T = case['I'], case['T']
    cfg = {'ping_interval': I, 'ping_timeout': T, 'http_compression': False,
           'async_handlers': False}
    H = TClientHarness if impl == 'thread' else AClientHarness
    RT = case.get('request_timeout', 5)
    ckw = {'request_timeout': RT}
    if impl == 'thread' and case.get('ws_timeout_opt'):
        ckw['websocket_extra_options'] = {'timeout': case['ws_timeout_opt']}
    h = H(cfg, faults=case['faults'], app_kwargs={'engineio_path': case['path']},
          client_kwargs=ckw)
    cl = h.client
    ftrig = '+'.join(sorted('%s:%s' % (f['on'], f['kind']) for f in case['faults'])) or 'no-fault'
    try:
        pre = run_prelude(h, case)
        greets = ['greet%d' % k for k in range(case.get('server_greets', 0))]
        h.world.app_log.connect_sends = list(greets)
        c = h.client_call('connect', case['url'], transports=case['transports'],
                          engineio_path=case['path'])
        # (each handshake read is bounded by request_timeout - or by the timeout the caller put
        # into websocket_extra_options, which takes precedence)
        h.run_until(lambda: c.done, max(40, 2 * RT + 10, 2 * (ckw.get(
            'websocket_extra_options', {}).get('timeout') or 0) + 10))
        check_urls(h, impl, case, rep)
        uq = urllib.parse.parse_qs(urllib.parse.urlsplit(case['url']).query)
        collides = any(k in uq for k in ('EIO', 'transport', 'sid', 'j'))
        if not c.done or c.exc is not None:
            # connection attempts may legitimately fail under the script (e.g. everything hangs)
            # or when the caller's own query collides with the protocol parameters
            if not case['faults'] and not collides:
                raise V(impl, 'connect-failed', 'no-fault', 'connect(): done=%s exc=%r' % (
                    c.done, c.exc), rep)
            # a polling connection whose HTTP side is undisturbed succeeds whatever happens on
            # the upgrade socket: the client "otherwise stays on polling" (each handshake read
            # is bounded by request_timeout)
            if case['transports'] != ['websocket'] and not collides and \
                    all(f['on'] == 'ws-recv' for f in case['faults']):
                raise V(impl, 'connect-failed', 'upgrade-socket-fault-only|' + ftrig + (
                    '|never-returned' if not c.done else ''),
                    'connect(): done=%s exc=%r although only the upgrade socket misbehaved' % (
                        c.done, c.exc), rep)
            if ctx:
                ctx.case(rep, True, [impl, 'connect-failed-under-script'])
            return
        sid = [e for e in h.world.app_log.events if e[1] == 'connect'][-1][2]
        # websocket only through the probe handshake
        probe_broken = any(f['on'] == 'ws-recv' and f.get('n') == 0 for f in case['faults'])
        want_ws = case['transports'] in (None, ['websocket']) and not (
            case['transports'] is None and probe_broken)
        if case['transports'] is None and probe_broken and cl.transport() == 'websocket':
            raise V(impl, 'upgraded-without-probe-answer', ftrig,
                    'the PONG probe was replaced / swallowed, yet the client is on websocket', rep)
        if not case['faults'] and cl.transport() != ('websocket' if want_ws else 'polling'):
            raise V(impl, 'wrong-transport', str(case['transports']),
                    'transport %r' % cl.transport(), rep)
        csent, ssent = [], list(greets)
        for stp in case['steps']:
            if stp['do'] == 'csend':
                d = rm.untag(stp['data'])
                csent.append(d)
                h.client_call('send', d)
                h.run_until(lambda: False, 0.05)
            elif stp['do'] in ('cburst', 'sburst'):
                for t in stp['data']:
                    d = rm.untag(t)
                    if stp['do'] == 'cburst':
                        csent.append(d)
                        h.client_call('send', d)
                    else:
                        ssent.append(d)
                        h.world.call('send', sid, d)
                h.run_until(lambda: False, 0.05)
            elif stp['do'] == 'ssend':
                d = rm.untag(stp['data'])
                ssent.append(d)
                h.world.call('send', sid, d)
                h.run_until(lambda: False, 0.05)
            else:
                h.advance(stp['dt'])
        h.run_until(lambda: False, 0.5)
        if any(f['kind'] in ('silence', 'hang') for f in case['faults']) and not h.faults.fired:
            h.advance(3 * I + 1)        # give the scripted silence a chance to begin
        if any(f['kind'] == 'silence' or (f['kind'] == 'hang' and 'from' in f)
               for f in h.faults.fired):
            # let the silence play out first; when it began is only known afterwards
            h.advance(2 * (I + T) + 25)
        silence = silence_start(h, case)
        injected_msgs = [f['frame'][1:] for f in h.faults.fired
                         if f['kind'] == 'replace' and f.get('frame', '')[:1] == '4']
        alive = cl.state == 'connected' and not any(e == 'disconnect' for _, e, _ in h.log.events)
        # NOOP and unknown packet types are ignored
        harmless = [f for f in h.faults.fired if f['kind'] in ('replace', 'garbage') and
                    str(f.get('frame', f.get('body', 'x')))[:1] in ('6', '7', '8', '9') and
                    not (f['on'] == 'ws-recv' and f.get('n') == 0) and
                    f.get('orig_harmless')]
        if harmless and len(harmless) == len(h.faults.fired) and not alive and silence is None:
            raise V(impl, 'unknown-packet-not-ignored',
                    str(harmless[0].get('frame', harmless[0].get('body')))[:1],
                    'after receiving %r the client is %s; events %r' % (
                        harmless[0].get('frame', harmless[0].get('body')), cl.state,
                        [(e, a) for _, e, a in h.log.events]), rep)
        # PONG echo
        pings, pongs = ping_pong_log(h)
        if alive and silence is None:
            if pongs[:len(pings)] != pings or len(pongs) > len(pings):
                raise V(impl, 'pong-does-not-echo-ping', ftrig,
                        'PING data received %r, PONG data sent %r' % (pings, pongs), rep)
        else:
            for i, d in enumerate(pongs):
                if i >= len(pings) or d != pings[i]:
                    raise V(impl, 'pong-does-not-echo-ping', ftrig + '|partial',
                            'PING data received %r, PONG data sent %r' % (pings, pongs), rep)
        # server -> client messages: exactly once, in arrival order
        got_c = [a for t, e, a in h.log.events if e == 'message']
        exp_c = [expected_arrival(x) for x in ssent]
        replaced = sum(1 for f in h.faults.fired if f['kind'] in ('replace', 'swallow', 'garbage'))
        if alive and silence is None and not replaced:
            if not same(exp_c, got_c):
                raise V(impl, 'server-messages-not-delivered-once-in-order', ftrig,
                        'server sent %r, handler got %r' % (exp_c, got_c), rep)
        else:
            rest = list(exp_c) + injected_msgs
            for g in got_c:
                hit = next((i for i, e in enumerate(rest) if rm.jeq(e, g)), None)
                if hit is None:
                    raise V(impl, 'message-event-nobody-sent', ftrig,
                            'handler got %r; server sent %r (+injected %r)' % (
                                g, exp_c, injected_msgs), rep)
                del rest[hit]
        # client -> server: exactly the application's sends, in order, right wire form
        got_s = [a for t, e, s_, a in h.world.app_log.events if e == 'message']
        exp_s = [expected_arrival(x) for x in csent]
        # (a script that took a PING, CLOSE or OPEN away from the client may cost the session on
        # the server side: the heartbeat goes unanswered)
        ctl_lost = any(f['kind'] in ('replace', 'swallow', 'garbage') and
                       not f.get('orig_harmless', False) for f in h.faults.fired)
        if alive and silence is None and not ctl_lost:
            if not same(exp_s, got_s):
                raise V(impl, 'client-sends-not-transmitted-once-in-order',
                        ftrig + '|' + cl.transport(),
                        'application sent %r, server got %r' % (exp_s, got_s), rep)
        else:
            if not is_prefix_like(got_s, exp_s):
                raise V(impl, 'client-sends-duplicated-or-invented', ftrig,
                        'application sent %r, server got %r' % (exp_s, got_s), rep)
        check_wire_forms(h, impl, csent, rep)
        # silence detection
        if silence is not None:
            # (the disconnect event waits for the write loop: a POST that hangs holds it up for
            # request_timeout; a long-poll alone never does)
            slack = lambda: (RT if any(r['method'] == 'POST' and r.get('fault') == 'hang'  # noqa
                                       for r in h.log.http) else min(RT, 5)) + 0.5
            limit = silence + I + T + 5 + slack()
            if h.clock.now < limit + 1:
                h.advance(limit + 1 - h.clock.now)
                silence = silence_start(h, case)
                limit = silence + I + T + 5 + slack()
            disc = [(t, a) for t, e, a in h.log.events if e == 'disconnect']
            if not disc:
                raise V(impl, 'silence-not-detected', '%s|%s' % (cl.transport(), ftrig),
                        'server silent since %.3f, no disconnect by %.3f (I=%s T=%s)' % (
                            silence - 2 ** 20, h.clock.now - 2 ** 20, I, T), rep)
            if disc[0][1] != 'transport error' and disc[0][0] >= silence:
                raise V(impl, 'silence-wrong-reason', str(disc[0][1]),
                        'silence was reported as %r' % (disc[0][1],), rep)
            if disc[0][0] > limit:
                raise V(impl, 'silence-detected-too-late', cl.transport() or 'none',
                        'silent since %.3f, declared lost at %.3f, bound %.3f' % (
                            silence - 2 ** 20, disc[0][0] - 2 ** 20, limit - 2 ** 20), rep)
        elif not case['faults']:
            disc = [(t, a) for t, e, a in h.log.events if e == 'disconnect']
            if disc:
                raise V(impl, 'connection-lost-without-cause', str(disc[0][1]),
                        'no fault, yet disconnect %r' % (disc,), rep)
        if ctx:
            fired = sorted(set(f['kind'] for f in h.faults.fired))
            q = urllib.parse.urlsplit(case['url']).query
            nt = bool(fired) or bool(q)
            cls = [impl, 'transport-%s' % cl.transport()] + ['fault-' + k for k in fired]
            if silence is not None:
                cls.append('silence')
            if q:
                cls.append('url-with-query')
            if pings:
                cls.append('pings-seen')
            for k in pre:
                cls.append('earlier-connection-ended-by-' + k)
            ctx.case(rep, nt, cls)
    finally:
        h.teardown()


def run_prelude(h, case):
    """Earlier connections of the same client object, without script faults; every log is
    emptied afterwards so that the judged connection is looked at alone.  -> kinds that ran"""
    ran = []
    cl = h.client
    I, T = case['I'], case['T']
    for kind in case.get('prelude') or []:
        h.faults.disabled = True
        c = h.client_call('connect', case['url'], transports=case['transports'],
                          engineio_path=case['path'])
        h.run_until(lambda: c.done, 40)
        if not c.done or c.exc is not None:
            break
        sids = [e[2] for e in h.world.app_log.events if e[1] == 'connect']
        if kind == 'drop' and cl.transport() == 'websocket' and getattr(cl, 'ws', None) is not None \
                and hasattr(cl.ws, 'conn'):
            # the network path dies; the application then tries to send
            cl.ws.dropped = True
            h.world.ws_fail(cl.ws.conn)
            h.client_call('send', 'into the void')
        elif kind == 'cdisc':
            h.client_call('disconnect')
        else:
            kind = 'sdisc'
            h.world.call('disconnect', sids[-1])
        h.run_until(lambda: cl.state == 'disconnected', 2 * (I + T) + 40)
        h.run_until(lambda: False, 1.0)
        if cl.state != 'disconnected':
            break
        ran.append(kind)
    h.run_until(lambda: False, 0.5)
    del h.log.http[:], h.log.ws[:], h.log.events[:]
    del h.world.app_log.events[:], h.world.app_log.steps[:]
    h.faults.count = {}
    h.faults.fired = []
    h.faults.disabled = False
    return ran


def silence_start(h, case):
    """Virtual time from which the client receives nothing more: the later of the first
    silencing fault and the last thing it did receive."""
    first = None
    for f in h.faults.fired:
        if f['kind'] == 'silence' or (f['kind'] == 'hang' and 'from' in f):
            first = True
    if not first:
        return None
    last = 0.0
    for r in h.log.http:
        req = r.get('req')
        if r['method'] == 'GET' and r.get('fault') in (None, 'garbage') and req is not None \
                and req.done and r.get('status') is not None:
            # (an answer whose content the script replaced is still something received)
            last = max(last, req.t_end)
    for w in h.log.ws:
        for t, f in w['recv']:
            last = max(last, t)
        last = max(last, w['t'])
    t_fault = None
    for r in h.log.http:
        if r.get('fault') == 'hang':
            t_fault = r['t'] if t_fault is None else min(t_fault, r['t'])
    return max(last, t_fault or 0.0) or h.clock.now


def ping_pong_log(h):
    """(data of PINGs the client received, data of PONGs it sent), each in order."""
    evs = []
    for r in h.log.http:
        req = r.get('req')
        if r['method'] == 'GET' and req is not None and req.done and r.get('status') == 200:
            body = r.get('content', req.resp_body)
            try:
                for p in packets_of_body(body or b''):
                    if p[:1] == '2':
                        evs.append((req.t_end, 0, 'ping', p[1:]))
            except UnicodeDecodeError:
                pass
        if r['method'] == 'POST':
            for p in packets_of_body(r.get('body') or ''):
                if p[:1] == '3':
                    evs.append((r['t'], 1, 'pong', p[1:]))
    for w in h.log.ws:
        for t, f in w['recv']:
            if isinstance(f, str) and f[:1] == '2' and f != '2probe':
                evs.append((t, 0, 'ping', f[1:]))
        for t, f in w['sent']:
            if isinstance(f, str) and f[:1] == '3' and f != '3probe':
                evs.append((t, 1, 'pong', f[1:]))
    evs.sort(key=lambda x: (x[0], x[1]))
    return [d for _, _, k, d in evs if k == 'ping'], [d for _, _, k, d in evs if k == 'pong']


def expected_arrival(x):
    if isinstance(x, (bytes, bytearray)):
        return bytes(x)
    if isinstance(x, str):
        return rm.ref_decode_text_payload(x)[-1]
    return x


def same(exp, got):
    return len(exp) == len(got) and all(rm.jeq(e, g) for e, g in zip(exp, got))


def is_prefix_like(got, exp):
    """got is an order-preserving sub-sequence of exp without duplicates."""
    i = 0
    for g in got:
        while i < len(exp) and not rm.jeq(exp[i], g):
            i += 1
        if i >= len(exp):
            return False
        i += 1
    return True


def check_wire_forms(h, impl, csent, rep):
    bins = [bytes(x) for x in csent if isinstance(x, (bytes, bytearray))]
    if not bins:
        return
    for w in h.log.ws:
        for t, f in w['sent']:
            if isinstance(f, str) and f[:1] == 'b' and f not in ('b',):
                raise V(impl, 'binary-sent-as-base64-on-websocket', 'ws',
                        'frame %r sent on the WebSocket' % (f[:40],), rep)
    for r in h.log.http:
        if r['method'] == 'POST':
            body = r.get('body')
            if isinstance(body, (bytes, bytearray)):
                try:
                    body = body.decode('utf-8')
                except UnicodeDecodeError:
                    raise V(impl, 'raw-binary-in-polling-body', 'post',
                            'POST body %r is not text' % (body[:40],), rep)


def check_urls(h, impl, case, rep):
    u = urllib.parse.urlsplit(case['url'])
    secure = u.scheme in ('https', 'wss')
    want_path = '/' + case['path'].strip('/') + '/'
    recs = [('http', r) for r in h.log.http] + [('ws', w) for w in h.log.ws]
    for kind, r in recs:
        want_scheme = ('https' if secure else 'http') if kind == 'http' else \
            ('wss' if secure else 'ws')
        trig = '%s|%s' % (kind, u.scheme)
        if r['scheme'] != want_scheme:
            raise V(impl, 'wrong-url-scheme', trig,
                    'connect(%r): %s request to %r' % (case['url'], kind, r['url']), rep)
        if r['netloc'] != u.netloc:
            raise V(impl, 'wrong-url-host', trig, 'connect(%r): request to %r' % (
                case['url'], r['url']), rep)
        if r['path'] != want_path:
            raise V(impl, 'wrong-url-path', '%s|%s' % (kind, case['path']),
                    'engineio_path %r: request path %r' % (case['path'], r['path']), rep)
        q = r['query']
        tr = 'polling' if kind == 'http' else 'websocket'
        base = (u.query + '&' if u.query else '') + 'transport=%s&EIO=4' % tr
        if not q.startswith(base):
            raise V(impl, 'wrong-url-query', '%s|%s' % (kind, 'with-query' if u.query
                                                      else 'no-query'),
                    'connect(%r): request query %r does not start with %r' % (
                        case['url'], q, base), rep)
        rest = q[len(base):]
        for piece in [p for p in rest.split('&') if p]:
            if not (piece.startswith('sid=') or piece.startswith('t=')):
                raise V(impl, 'wrong-url-query', kind + '|extra',
                        'unexpected query piece %r in %r' % (piece, q), rep)


def check_case(case, ctx=None):
    from vk import watchdog
    impl = case.get('impl', '?')
    watchdog.run_case(lambda: _check_case(case, ctx),
                      lambda msg: V(impl, 'step-never-completes', 'busy-loop', msg, dict(case)))


def run_shard(ctx):
    quick = ctx.tier == 'quick'
    run_given(ctx, case_st(), lambda c: check_case(c, ctx), max_examples=200 if quick else 4000)


def replay(case, ctx):
    check_case(case)
