"""C10 - This package's clients and servers interoperate without loss or disagreement."""
from hypothesis import strategies as st

from vk.runner import Violation, run_given
from vk.clientworld import TClientHarness, AClientHarness
from vk import refmodel as rm

ID = 'C10'
LEVEL = 'exploration'
RULE = ('Hypothesis draws one of the 2x2 client/server pairs (threaded Client or AsyncClient against '
        'the threaded Server or the AsyncServer; same-kind pairs in their native world, cross-kind '
        'pairs in a hybrid world where the baton scheduler and the virtual-time loop share one '
        'clock), the client transport '
        'list ([polling], [websocket], default = polling then upgrade), heartbeat settings (plain interval or (interval, grace)), handlers that may take virtual time on either side, handler '
        'dispatch mode and a conversation: bursts of 1..40 sends in either direction with text / '
        'JSON / binary payloads, message handlers on either or both sides that answer each message with a send() of their own, sends from inside the client connect handler (queued across the '
        'upgrade), idle periods of up to 50 (quick) / 300 (thorough) heartbeat cycles, with or '
        'without settling between steps, and a disconnect by either side at the end (that of the server possibly right after a burst of 1..40 sends). Oracle: each '
        "side's message log equals the other side's send log (exactly once, in order, equal "
        'payloads); no disconnect on either side while both are connected; after a disconnect by '
        'either side each side logs exactly one disconnect. Non-trivial: a burst over 16 on '
        'polling, a send queued before the upgrade, or >= 10 idle heartbeat cycles. Distinct: hash '
        'of the case.')
ASSUMPTIONS = ['same kernel assumptions as C03', 'fake requests / websocket-client / aiohttp session '
               'objects follow the documented contracts of those libraries',
               'cross-kind pairs run in a hybrid world (vk/clientworld.Composite): the harness thread '
               'alternates between the scheduler and the loop until both are quiet']


def V(impl, clause, trigger, detail, case):
    return Violation(ID, impl, clause, trigger, detail, case)


payload_st = st.one_of(
    st.text(alphabet=st.sampled_from(list('ab"\\ {}[]:,0é\n') + ['\U0001f600']), max_size=8),
    st.binary(max_size=8),
    st.sampled_from([{'k': 1}, {'k': [1, 'a', None]}, [1, 2], {'n': {'m': 1.5}},
                     {'half': '\ud83d'}, ['\udc00', 'x'],     # (lone surrogates: legal JSON text)
                     # non-finite floats: not JSON proper, but what this package's encoder writes
                     # its decoder reads back
                     {'limit': float('inf'), 'used': 12.5}, [0.25, float('-inf'), 'tail']]))


@st.composite
def case_st(draw):
    impl = draw(st.sampled_from(['thread', 'async']))
    server = draw(st.sampled_from(['same', 'same', 'other']))
    transports = draw(st.sampled_from([None, None, ['polling'], ['websocket']]))
    I = draw(st.sampled_from([1, 2.5, 5, 25]))
    T = draw(st.sampled_from([1, 2.5, 5, 20]))
    steps = []
    n = draw(st.integers(1, 7))
    seq = 0
    for _ in range(n):
        k = draw(st.sampled_from(['csend', 'csend', 'ssend', 'ssend', 'idle', 'idle-short']))
        if k in ('csend', 'ssend'):
            m = draw(st.sampled_from([1, 1, 2, 3, 5, 15, 16, 17, 18, 25, 40]))
            msgs = []
            for _ in range(m):
                seq += 1
                p = draw(payload_st)
                if draw(st.integers(0, 11)) == 0:
                    msgs.append(rm.tag(draw(st.sampled_from([b'', '', b'\x00']))))   # untagged
                else:
                    m = rm.tag(tagged(k[0], seq, p))
                    if m['t'] == 'json' and draw(st.integers(0, 4)) == 0:
                        # the same value as an instance of a dict / list subclass
                        m = {'t': 'odict' if m['v'].startswith('{') else 'ulist', 'v': m['v']}
                    msgs.append(m)
            steps.append({'do': k, 'msgs': msgs, 'settle': draw(st.sampled_from([True, True, False]))})
        elif k == 'idle':
            steps.append({'do': 'idle', 'cycles': draw(st.sampled_from([1, 2, 10, 20, 50]))})
        else:
            steps.append({'do': 'idle', 'dt': draw(st.sampled_from([0.25, I / 2, T, I + T]))})
    end = draw(st.sampled_from(['client', 'server', 'none']))
    pre = draw(st.sampled_from([0, 0, 0, 1, 3, 17]))
    greets = draw(st.sampled_from([0, 0, 0, 1, 3]))
    # handlers that take (virtual) time on either side; message handlers only a little, so that a
    # whole conversation of bursts cannot starve the heartbeat of a synchronous reader
    delays = draw(st.sampled_from([None, None, None,
                                   {'client': {'disconnect': 0.25}, 'server': {}},
                                   {'client': {}, 'server': {'disconnect': 0.25}},
                                   {'client': {'connect': 0.25, 'message': 2.0 ** -9},
                                    'server': {'message': 2.0 ** -9}},
                                   {'client': {'disconnect': 0.25, 'message': 2.0 ** -9},
                                    'server': {'disconnect': 0.25, 'message': 2.0 ** -9}}]))
    # ping_interval given as (interval, grace): the client is told interval + grace
    grace = draw(st.sampled_from([None, None, None, 0.5, 'T+1']))
    # request / response conversations: a message handler that answers every message it gets with
    # a send() of its own before returning (replies themselves are not answered)
    echo = draw(st.sampled_from([None, None, None, 'server', 'client', 'both']))
    # sends issued by the application right before its disconnect(sid): what was queued before
    # the CLOSE is written before it (judged on WebSocket, where the writer drains the queue)
    end_burst = draw(st.sampled_from([0, 0, 0, 1, 15, 16, 17, 40]))
    return {'impl': impl, 'server': server, 'transports': transports, 'I': I, 'T': T, 'echo': echo, 'end_burst': end_burst,
            'async_handlers': draw(st.booleans()), 'steps': steps, 'end': end,
            'send_in_connect': pre, 'server_greets': greets, 'delays': delays, 'grace': grace}


def tagged(side, seq, p):
    tag = '%s%d~' % (side.upper(), seq)
    if isinstance(p, str):
        return tag + p
    if isinstance(p, bytes):
        return tag.encode() + p
    if isinstance(p, dict):
        return dict(p, tag=tag)
    return [tag] + list(p)


def _check_case(case, ctx=None, idle_scale=1.0):
    client_kind = case['impl']
    server_kind = client_kind if case.get('server', 'same') == 'same' else \
        ('async' if client_kind == 'thread' else 'thread')
    impl = client_kind if server_kind == client_kind else '%s-client/%s-server' % (
        client_kind, server_kind)
    rep = dict(case)
    cfg = {'ping_interval': case['I'], 'ping_timeout': case['T'],
           'async_handlers': case['async_handlers'], 'http_compression': False}
    if case.get('grace') is not None:
        g = case['T'] + 1 if case['grace'] == 'T+1' else case['grace']
        cfg['ping_interval'] = (case['I'], g)
    h = (TClientHarness if client_kind == 'thread' else AClientHarness)(cfg, server=server_kind)
    I, T = case['I'], case['T']
    csent, ssent = [], []
    greets = [tagged('s', 2000 + i, 'greet') for i in range(case.get('server_greets', 0))]
    h.world.app_log.connect_sends = list(greets)
    ssent.extend(greets)
    if case.get('delays'):
        h.handler_delay = dict(case['delays']['client'])
        h.world.app_log.delay = dict(case['delays']['server'])
    echo = case.get('echo')
    nrep = [0]
    if echo:
        # with handlers that send, the order of the send() calls is only known when they are
        # made: record it there (both sides), instead of when the harness issues them
        import asyncio
        for obj, log in ((h.world.server, ssent), (h.client, csent)):
            orig = obj.send
            if asyncio.iscoroutinefunction(orig):
                def mk(orig=orig, log=log):
                    async def send(*a, **k):
                        log.append(a[-1])
                        return await orig(*a, **k)
                    return send
            else:
                def mk(orig=orig, log=log):
                    def send(*a, **k):
                        log.append(a[-1])
                        return orig(*a, **k)
                    return send
            obj.send = mk()
        del ssent[:]        # (the greetings are recorded when the connect handler sends them)

    def is_reply(d):
        return isinstance(d, str) and d[:1] in 'SC' and d.endswith('~reply')
    if echo in ('server', 'both'):
        from vk.aworld import HandlerCall

        def react(ev, sid_, data):
            if ev != 'message' or is_reply(data):
                return []
            nrep[0] += 1
            m = tagged('s', 5000 + nrep[0], 'reply')
            return [('send', m, HandlerCall('send', (sid_, m), h.clock.now))]
        h.world.app_log.react = react
    try:
        pre = case.get('send_in_connect', 0)
        premsgs = [tagged('c', 1000 + i, 'pre') for i in range(pre)]
        if pre or echo in ('client', 'both'):
            def on_event(ev, arg):
                if ev == 'connect':
                    for m in premsgs:
                        if not echo:
                            csent.append(m)
                        if client_kind == 'thread':
                            h.client.send(m)
                        else:
                            h.loop.create_task(h.client.send(m))
                if ev == 'message' and echo in ('client', 'both') and not is_reply(arg):
                    nrep[0] += 1
                    m = tagged('c', 7000 + nrep[0], 'reply')
                    if client_kind == 'thread':
                        h.client.send(m)
                    else:
                        return h.client.send(m)         # awaited by the handler itself
                return None
            h.log.on_event = on_event
        c = h.client_call('connect', 'http://localhost:5000', transports=case['transports'])
        h.run_until(lambda: c.done, 30)
        tr = 'upgrade' if case['transports'] is None else case['transports'][0]
        if not c.done or c.exc is not None:
            raise V(impl, 'connect-failed', tr, 'connect(): done=%s exc=%r' % (c.done, c.exc), rep)
        sid = h.client.sid
        want_tr = 'polling' if tr == 'polling' else 'websocket'
        if h.client.transport() != want_tr:
            raise V(impl, 'wrong-transport-after-connect', tr,
                    'client transport %r, expected %r' % (h.client.transport(), want_tr), rep)
        for stp in case['steps']:
            if stp['do'] == 'csend':
                for m in stp['msgs']:
                    d = rm.untag(m)
                    if not echo:
                        csent.append(d)
                    h.client_call('send', d)
                if stp['settle']:
                    h.settle()
            elif stp['do'] == 'ssend':
                for m in stp['msgs']:
                    d = rm.untag(m)
                    if not echo:
                        ssent.append(d)
                    h.world.call('send', sid, d)
                if stp['settle']:
                    h.settle()
            else:
                dt = stp.get('dt')
                if dt is None:
                    dt = stp['cycles'] * I * idle_scale
                h.advance(dt)
            check_no_disconnect(h, impl, rep, tr, 'during-conversation')
        h.settle()
        h.advance(min(I, T) / 2)      # let batched polls / posts complete
        h.settle()
        check_no_disconnect(h, impl, rep, tr, 'during-conversation')
        check_logs(h, impl, case, csent, ssent, rep, tr)
        end = case['end']
        if end == 'client':
            h.client_call('disconnect')
        elif end == 'server':
            burst = case.get('end_burst', 0) if tr != 'polling' else 0
            for i in range(burst):
                d = tagged('s', 9000 + i, 'last')
                if not echo:
                    ssent.append(d)
                h.world.call('send', sid, d)
            h.world.call('disconnect', sid)
        if end != 'none':
            h.settle()
            h.advance(2 * (I + T) + 6)
            cd = [a for t, e, a in h.log.events if e == 'disconnect']
            sd = [a for t, e, s_, a in h.world.app_log.events if e == 'disconnect']
            if len(cd) != 1 or len(sd) != 1:
                raise V(impl, 'disconnect-not-observed-once-by-both', '%s|by-%s|client=%d|server=%d'
                        % (tr, end, len(cd), len(sd)),
                        'after disconnect by the %s: client saw %r, server saw %r' % (end, cd, sd),
                        rep)
            if h.client.state != 'disconnected':
                raise V(impl, 'client-not-disconnected', '%s|by-%s' % (tr, end),
                        'client state %r' % h.client.state, rep)
            if end == 'server' and tr != 'polling' and case.get('end_burst', 0):
                check_logs(h, impl, case, csent, ssent, rep, tr + '|sent-right-before-disconnect',
                           only='server->client')
        if ctx:
            big = any(len(s.get('msgs', [])) > 16 for s in case['steps'])
            idle = sum(s.get('cycles', 0) for s in case['steps'])
            nt = (big and tr == 'polling') or pre > 0 or idle >= 10
            cls = ['pair-' + impl, 'transport-' + tr, 'end-' + case['end']]
            if big:
                cls.append('burst>16')
            if idle >= 10:
                cls.append('idle>=10-cycles')
            if pre:
                cls.append('send-in-connect-handler')
            if case.get('delays'):
                cls.append('handlers-taking-time')
            if echo:
                cls.append('message-handler-replies-' + echo)
            if case['end'] == 'server' and tr != 'polling' and case.get('end_burst', 0):
                cls.append('sends-right-before-server-disconnect' + (
                    '>=16' if case['end_burst'] >= 16 else ''))
            if case.get('grace') is not None:
                cls.append('interval-with-grace-%s' % case['grace'])
            ctx.case(rep, nt, cls)
    finally:
        h.teardown()


def check_no_disconnect(h, impl, rep, tr, when):
    cd = [(t, a) for t, e, a in h.log.events if e == 'disconnect']
    sd = [(t, a) for t, e, s_, a in h.world.app_log.events if e == 'disconnect']
    if cd or sd:
        raise V(impl, 'connection-lost', '%s|client=%s|server=%s' % (
            tr, cd[0][1] if cd else None, sd[0][1] if sd else None),
            'nobody disconnected, yet client saw %r and server saw %r (client state %s)' % (
                [(round(t - 2 ** 20, 3), a) for t, a in cd],
                [(round(t - 2 ** 20, 3), a) for t, a in sd], h.client.state), rep)


def check_logs(h, impl, case, csent, ssent, rep, tr, only=None):
    got_s = [a for t, e, s_, a in h.world.app_log.events if e == 'message']
    got_c = [a for t, e, a in h.log.events if e == 'message']
    for side, sent, got, ordered in (('client->server', csent, got_s, not case['async_handlers']),
                                     ('server->client', ssent, got_c, True)):
        if only and side != only:
            continue
        exp = [expected_arrival(x) for x in sent]
        if len(got) != len(exp) or not all_match(exp, got, ordered):
            missing = [e for e in exp if not any(rm.jeq(e, g) for g in got)]
            extra = [g for g in got if not any(rm.jeq(e, g) for e in exp)]
            kind = 'lost' if missing else 'invented' if extra else \
                'duplicated' if len(got) > len(exp) else 'reordered'
            raise V(impl, 'messages-%s' % kind, '%s|%s|burst=%s' % (
                side, tr, burst_class(case, side)),
                '%s: sent %d, received %d; missing %r; extra %r' % (
                    side, len(exp), len(got), missing[:4], extra[:4]), rep)


def burst_class(case, side):
    k = 'csend' if side.startswith('client') else 'ssend'
    m = max([len(s.get('msgs', [])) for s in case['steps'] if s['do'] == k] + [0])
    if side.startswith('client'):
        m = max(m, case.get('send_in_connect', 0))
    return '>16' if m > 16 else '<=16'


def expected_arrival(x):
    if isinstance(x, (bytes, bytearray)):
        return bytes(x)
    if isinstance(x, str):
        al = rm.ref_decode_text_payload(x)
        return al[-1]
    return x


def all_match(exp, got, ordered):
    if ordered:
        return all(rm.jeq(e, g) for e, g in zip(exp, got))
    rest = list(got)
    for e in exp:
        for i, g in enumerate(rest):
            if rm.jeq(e, g):
                del rest[i]
                break
        else:
            return False
    return not rest


def check_case(case, ctx=None, idle_scale=1.0):
    from vk import watchdog
    impl = case.get('impl', '?')
    watchdog.run_case(lambda: _check_case(case, ctx, idle_scale=idle_scale),
                      lambda msg: V(impl, 'step-never-completes', 'busy-loop', msg, dict(case)))


def run_shard(ctx):
    quick = ctx.tier == 'quick'
    run_given(ctx, case_st(), lambda c: check_case(c, ctx, 1.0 if quick else 6.0),
              max_examples=300 if quick else 4000)


def replay(case, ctx):
    check_case(case)
