"""C11 - OPEN handshake reflects configuration and honours the connect handler."""
import itertools
import json

from vk.runner import Violation, h64
from vk.machine import make_world
from vk import refmodel as rm

ID = 'C11'
LEVEL = 'exploration'
RULE = ('Grid: ping_interval {25, 1, 0.5, 1.5, 2.75, (25,5), (1.5,0.25), (10,0)} x ping_timeout '
        '{20, 1, 0.5, 2.5} x max_http_buffer_size {1000000, 1, 12345} x allow_upgrades x '
        'transports {default, polling, websocket, both} x cookie {none, name, dict with string / '
        'True / False / callable attributes} x connect-handler outcome {None, True, False, 0, "", '
        'text, dict, list, 1, 1.0, raise} x open kind {polling, websocket} x JSONP {off, on} x server '
        '{threaded, asyncio}; each cell opens a session on a fresh server whose connect handler '
        'sends 0, 1 or 2 messages to the new session (number derived from the cell). Oracle: first packet is '
        'OPEN with the handler sid, pingInterval == (interval+grace)*1000, pingTimeout == '
        'timeout*1000, maxPayload as configured; websocket advertised only if an upgrade would be '
        'accepted, and when advertised a conforming upgrade attempt completes; Set-Cookie iff '
        'configured with name=sid and the configured attributes; a second open on the same server '
        'gets the same fields and cookie; rejecting outcomes answer 401 '
        'with the JSON value when truthy and the sid stays dead (KeyError, 400, no event after a '
        'long clock advance). quick: a seed-ordered quarter of the grid, thorough: all of it '
        '(exhaustive). Non-trivial: fractional or tuple interval, or restricted transports, or a '
        'cookie dict, or a rejecting outcome. Distinct: the cell.')
ASSUMPTIONS = ['same kernel assumptions as C03',
               'Set-Cookie on WebSocket opens is an open cell (checked on polling opens)',
               'an empty upgrades list is always acceptable (the statement is one-directional)']

INTERVALS = [25, 1, 0.5, 1.5, 2.75, [25, 5], [1.5, 0.25], [10, 0]]
TIMEOUTS = [20, 1, 0.5, 2.5]
BUFFERS = [1000000, 1, 12345]
UPGRADES = [True, False]
TRANSPORTS = [None, ['polling'], ['websocket'], ['polling', 'websocket']]
COOKIES = ['none', 'name', 'dict-str', 'dict-mixed']
OUTCOMES = ['none', 'true', 'false', 'zero', 'empty', 'text', 'dict', 'list', 'raise', 'one',
            'one-float', 'raise-typeerror']
KINDS = ['polling', 'websocket']
JSONP = [None, 5]
IMPLS = ['thread', 'async']
OUTCOME_VALUE = {'none': None, 'true': True, 'false': False, 'zero': 0, 'empty': '',
                 'text': 'go away', 'dict': {'error': 'no', 'code': 7}, 'list': [1, 'x'],
                 'one': 1, 'one-float': 1.0}      # (equal to True, but not True)


def V(impl, clause, trigger, detail, case):
    return Violation(ID, impl, clause, trigger, detail, case)


def cookie_cfg(name):
    if name == 'none':
        return None, None
    if name == 'name':
        return 'eio', ('eio', {'path': '/', 'SameSite': 'Lax'})
    if name == 'dict-str':
        return ({'name': 'sess', 'path': '/app', 'SameSite': 'Strict'},
                ('sess', {'path': '/app', 'SameSite': 'Strict'}))
    # (attribute values may be callables: called per cookie, True = bare attribute, False = none)
    return ({'name': 'c2', 'Secure': True, 'HttpOnly': lambda: False, 'Max-Age': lambda: '3600',
             'domain': 'example.com', 'Partitioned': lambda: True, 'Priority': False},
            ('c2', {'Secure': True, 'Max-Age': '3600', 'domain': 'example.com',
                    'Partitioned': True}))


def cells():
    for c in itertools.product(IMPLS, INTERVALS, TIMEOUTS, BUFFERS, UPGRADES, TRANSPORTS, COOKIES,
                               OUTCOMES, KINDS, JSONP):
        tr, kind, j = c[5], c[8], c[9]
        if tr is not None and kind not in tr:
            continue
        if kind == 'websocket' and j is not None:
            continue
        yield c


def parse_cookie(v):
    parts = [p.strip() for p in v.split(';')]
    first = parts[0]
    attrs = {}
    for p in parts[1:]:
        if '=' in p:
            k, x = p.split('=', 1)
            attrs[k] = x
        else:
            attrs[p] = True
    return first, attrs


def greetings_for(c):
    """How many messages the connect handler sends to the session it is being asked about
    (derived from the cell, so that the grid does not grow): 0, 1 or 2."""
    return int(h64(['greet', repr(list(c))]), 16) % 3


def check_cell(c, ctx=None, greets=None):
    impl, interval, timeout, buf, upg, transports, cookie, outcome, kind, jsonp = c
    if greets is None:
        greets = greetings_for(c)
    rep = {'cell': [impl, interval, timeout, buf, upg, transports, cookie, outcome, kind, jsonp],
           'greets': greets}
    ck, ck_expect = cookie_cfg(cookie)
    cfg = {'ping_interval': tuple(interval) if isinstance(interval, list) else interval,
           'ping_timeout': timeout, 'max_http_buffer_size': buf, 'allow_upgrades': upg,
           'transports': transports, 'cookie': ck, 'http_compression': False}
    w = make_world(impl, cfg)
    trig = 'outcome=%s|%s' % (outcome, kind)
    try:
        if outcome == 'raise':
            w.app_log.outcome_by_ord[0] = ('raise',)
        elif outcome == 'raise-typeerror':
            w.app_log.outcome_by_ord[0] = ('raise', 'TypeError')
        elif outcome != 'none':
            w.app_log.outcome_by_ord[0] = ('ret', OUTCOME_VALUE[outcome])
        w.app_log.connect_sends = ['G%d~' % (k + 1) for k in range(greets)]
        hdrs = [('X-Verif-Open', '0'), ('Host', 'localhost')]
        q = 'transport=%s&EIO=4' % kind + ('' if jsonp is None else '&j=%d' % jsonp)
        if kind == 'polling':
            r = w.http('GET', q, headers=hdrs)
        else:
            r = w.ws_open(q, headers=hdrs)
        w.settle()
        connects = [e for e in w.app_log.events if e[1] == 'connect']
        if len(connects) != 1:
            raise V(impl, 'connect-handler-not-run-once', trig,
                    '%d connect events' % len(connects), rep)
        hsid = connects[0][2]
        accept = outcome in ('none', 'true')
        if not accept:
            check_rejected(w, impl, r, kind, outcome, hsid, rep, trig)
        else:
            check_accepted(w, impl, r, c, hsid, ck_expect, rep, trig + '|greets=%d' % greets
                           if greets else trig)
        if ctx:
            nt = isinstance(interval, list) or interval != int(interval) or transports is not None \
                or cookie.startswith('dict') or not accept
            ctx.case(rep, nt, [impl, 'outcome-' + outcome, 'kind-' + kind, 'cookie-' + cookie,
                               'handler-sends-%d' % greets])
    finally:
        w.teardown()


def check_rejected(w, impl, r, kind, outcome, hsid, rep, trig):
    val = OUTCOME_VALUE.get(outcome)
    if kind == 'polling':
        if r.exc is not None or not r.done:
            raise V(impl, 'rejected-open-not-answered', trig, 'done=%s exc=%r' % (r.done, r.exc), rep)
        if r.status != 401:
            raise V(impl, 'rejected-open-not-401', trig + '|got=%s' % r.status,
                    'connect handler rejected (%s) but the answer is %s %r' % (
                        outcome, r.status, r.resp_body), rep)
        if outcome in ('text', 'dict', 'list', 'one', 'one-float'):
            try:
                body = json.loads(r.resp_body.decode())
            except Exception:
                body = r.resp_body
            if not rm.jeq(body, val):
                raise V(impl, 'rejection-value-lost', outcome,
                        '401 body %r, the handler returned %r' % (r.resp_body, val), rep)
    else:
        if r.accepted and r.sent:
            raise V(impl, 'rejected-open-got-open-packet', trig,
                    'WebSocket open rejected by the handler but frames %r were sent' % (
                        r.frames(),), rep)
    # the id never becomes addressable
    n0 = len(w.app_log.events)
    c = w.call('transport', hsid)
    w.settle()
    if not isinstance(c.exc, KeyError):
        raise V(impl, 'rejected-sid-addressable', trig + '|transport()',
                'transport(%s) after rejection: result %r exc %r' % (hsid, c.result, c.exc), rep)
    p = w.http('GET', 'transport=polling&EIO=4&sid=' + hsid, headers=[('Host', 'localhost')])
    po = w.http('POST', 'transport=polling&EIO=4&sid=' + hsid, body=b'4hello',
                headers=[('Host', 'localhost')])
    s = w.call('send', hsid, 'x')
    w.settle()
    for name, q in (('GET', p), ('POST', po)):
        if q.exc is not None or not q.done or q.status != 400:
            raise V(impl, 'rejected-sid-addressable', trig + '|' + name,
                    '%s with the rejected sid: done=%s status=%s exc=%r' % (
                        name, q.done, q.status, q.exc), rep)
    w.advance(3 * (w.server.ping_interval + w.server.ping_timeout) + 1)
    if len(w.app_log.events) != n0:
        raise V(impl, 'event-for-rejected-session', trig,
                'events after the rejection: %r' % (w.app_log.events[n0:],), rep)


def check_accepted(w, impl, r, c, hsid, ck_expect, rep, trig):
    impl, interval, timeout, buf, upg, transports, cookie, outcome, kind, jsonp = c
    if kind == 'polling':
        if r.exc is not None or not r.done or r.status != 200:
            raise V(impl, 'open-not-answered-200', trig,
                    'done=%s status=%s exc=%r body=%r' % (r.done, r.status, r.exc, r.resp_body), rep)
        text = r.resp_body.decode('utf-8')
        if jsonp is not None:
            try:
                idx, text = rm.parse_jsonp(text)
            except rm.JsSyntaxError as e:
                raise V(impl, 'open-jsonp-garbled', trig, '%s: %r' % (e, text[:80]), rep)
        first = text.split(rm.SEP)[0]
    else:
        if not r.accepted or not r.sent:
            raise V(impl, 'open-not-answered-200', trig,
                    'WebSocket open: accepted=%s frames=%r exc=%r' % (r.accepted, r.frames(),
                                                                      r.exc), rep)
        first = r.frames()[0]
    if not isinstance(first, str) or first[:1] != '0':
        raise V(impl, 'first-packet-not-open', trig, 'first packet %r' % (first,), rep)
    greets = rep.get('greets', 0)
    if greets:
        rest = text.split(rm.SEP)[1:] if kind == 'polling' else r.frames()[1:]
        want = ['4G%d~' % (k + 1) for k in range(greets)]
        got = [p for p in rest if isinstance(p, str) and p[:1] == '4']
        if kind == 'websocket' and got != want:
            raise V(impl, 'handler-sends-lost-or-reordered', trig,
                    'the connect handler sent %r, the frames after OPEN are %r' % (want, rest), rep)
        if kind == 'polling' and got != want[:len(got)]:
            raise V(impl, 'handler-sends-lost-or-reordered', trig,
                    'the connect handler sent %r, the open answer continues %r' % (want, rest), rep)
    try:
        info = json.loads(first[1:])
    except ValueError:
        raise V(impl, 'first-packet-not-open', trig, 'OPEN payload is not JSON: %r' % first, rep)
    if info.get('sid') != hsid:
        raise V(impl, 'sid-differs-from-handler', trig,
                'OPEN says %r, the connect handler got %r' % (info.get('sid'), hsid), rep)
    iv = (interval[0] + interval[1]) if isinstance(interval, list) else interval
    for key, want in (('pingInterval', iv * 1000), ('pingTimeout', timeout * 1000),
                      ('maxPayload', buf)):
        got = info.get(key)
        if isinstance(got, bool) or not isinstance(got, (int, float)) or got != want:
            raise V(impl, 'open-field-wrong', '%s|%s' % (
                key, 'fractional' if want != int(want) or (key == 'pingInterval' and
                                                            iv != int(iv)) else 'integral'),
                    '%s is %r, configured value gives %r' % (key, got, want), rep)
    ups = info.get('upgrades')
    if not isinstance(ups, list):
        raise V(impl, 'open-field-wrong', 'upgrades', 'upgrades is %r' % (ups,), rep)
    ws_allowed = transports is None or 'websocket' in transports
    if 'websocket' in ups:
        if not (upg and ws_allowed and kind != 'websocket'):
            raise V(impl, 'upgrade-advertised-but-not-acceptable',
                    'allow=%s|ws-allowed=%s|%s' % (upg, ws_allowed, kind),
                    'upgrades=%r with allow_upgrades=%s transports=%s open=%s' % (
                        ups, upg, transports, kind), rep)
    if 'websocket' in ups and buf >= 6:
        # behavioural confirmation: a conforming client's upgrade completes (the probe frame
        # itself must fit into max_http_buffer_size)
        conn = w.ws_open('transport=websocket&EIO=4&sid=' + hsid, headers=[('Host', 'localhost')])
        w.settle()
        w.ws_client_send(conn, '2probe')
        w.settle()
        w.ws_client_send(conn, '5')
        w.settle()
        t = w.call('transport', hsid)
        w.settle()
        if t.exc is not None or t.result != 'websocket' or '3probe' not in conn.frames():
            raise V(impl, 'advertised-upgrade-refused', kind,
                    'upgrade attempt after advertisement: accepted=%s frames=%r transport=%r/%r'
                    % (conn.accepted, conn.frames(), t.result, t.exc), rep)
    if any(u != 'websocket' for u in ups):
        raise V(impl, 'open-field-wrong', 'upgrades', 'unknown upgrade %r' % (ups,), rep)
    if kind == 'polling':
        sc = r.header_all('Set-Cookie')
        if ck_expect is None:
            if sc:
                raise V(impl, 'cookie-set-but-not-configured', 'none', 'Set-Cookie %r' % sc, rep)
        else:
            if len(sc) != 1:
                raise V(impl, 'cookie-missing', cookie, '%d Set-Cookie headers' % len(sc), rep)
            first_kv, attrs = parse_cookie(sc[0])
            if first_kv != '%s=%s' % (ck_expect[0], hsid):
                raise V(impl, 'cookie-wrong', cookie + '|name-value',
                        'cookie starts %r, expected %s=<sid>' % (first_kv, ck_expect[0]), rep)
            if attrs != ck_expect[1]:
                raise V(impl, 'cookie-wrong', cookie + '|attributes',
                        'attributes %r, configured %r' % (attrs, ck_expect[1]), rep)
    # exactly one session: the sid is addressable, nothing else was created
    t = w.call('transport', hsid)
    w.settle()
    if t.exc is not None:
        raise V(impl, 'accepted-sid-not-addressable', trig, 'transport(): %r' % (t.exc,), rep)
    if len([e for e in w.app_log.events if e[1] == 'connect']) != 1:
        raise V(impl, 'more-than-one-session', trig, 'events %r' % (w.app_log.events,), rep)
    # the configuration is still in force for the next client of the same server
    if kind == 'polling' and (transports is None or 'polling' in transports):
        w.app_log.connect_sends = []
        r2 = w.http('GET', 'transport=polling&EIO=4',
                    headers=[('X-Verif-Open', '1'), ('Host', 'localhost')])
        w.settle()
        ids = [e[2] for e in w.app_log.events if e[1] == 'connect']
        if not r2.done or r2.status != 200 or len(ids) != 2:
            raise V(impl, 'second-open-differs', trig + '|not-answered',
                    'second open: done=%s status=%s connects=%d' % (r2.done, r2.status, len(ids)),
                    rep)
        first2 = r2.resp_body.decode('utf-8').split(rm.SEP)[0]
        try:
            info2 = json.loads(first2[1:]) if first2[:1] == '0' else None
        except ValueError:
            info2 = None
        if info2 is None or info2.get('sid') != ids[1]:
            raise V(impl, 'second-open-differs', trig + '|open-packet',
                    'second open answered %r (handler sid %r)' % (first2[:80], ids[1]), rep)
        for key in ('pingInterval', 'pingTimeout', 'maxPayload', 'upgrades'):
            if info2.get(key) != info.get(key):
                raise V(impl, 'second-open-differs', '%s|%s' % (trig, key),
                        'first open %s=%r, second open %r' % (key, info.get(key), info2.get(key)),
                        rep)
        sc2 = r2.header_all('Set-Cookie')
        if ck_expect is None:
            if sc2:
                raise V(impl, 'second-open-differs', cookie + '|cookie-appeared',
                        'second open Set-Cookie %r' % sc2, rep)
        else:
            ok = len(sc2) == 1
            if ok:
                kv2, attrs2 = parse_cookie(sc2[0])
                ok = kv2 == '%s=%s' % (ck_expect[0], ids[1]) and attrs2 == ck_expect[1]
            if not ok:
                raise V(impl, 'second-open-differs', cookie + '|cookie',
                        'second open Set-Cookie %r, configured %r' % (sc2, ck_expect), rep)


def check_overlapping_opens(impl, kind, n, ctx=None):
    """n open requests whose connect handlers run at the same time (each takes a quarter of a
    virtual second): every client is told the id its own connect handler was given."""
    rep = {'overlap': [impl, kind, n]}
    w = make_world(impl, {'http_compression': False}, handler_delay={'connect': 0.25})
    try:
        reqs = []
        for i in range(n):
            hdrs = [('X-Verif-Open', str(i)), ('Host', 'localhost')]
            if kind == 'polling':
                reqs.append(w.http('GET', 'transport=polling&EIO=4', headers=hdrs))
            else:
                reqs.append(w.ws_open('transport=websocket&EIO=4', headers=hdrs))
            w.settle()                  # the handler of this open is now taking its time
        w.advance(2.0)
        for i, r in enumerate(reqs):
            want = w.app_log.ord_sid.get(i)
            if kind == 'polling':
                if not r.done or r.status != 200:
                    raise V(impl, 'open-not-answered-200', 'overlapping|' + kind,
                            'open #%d: done=%s status=%s' % (i, r.done, r.status), rep)
                first = r.resp_body.decode('utf-8').split(rm.SEP)[0]
            else:
                if not r.accepted or not r.sent:
                    raise V(impl, 'open-not-answered-200', 'overlapping|' + kind,
                            'open #%d: accepted=%s frames=%r' % (i, r.accepted, r.frames()), rep)
                first = r.frames()[0]
            try:
                got = json.loads(first[1:]).get('sid') if first[:1] == '0' else None
            except ValueError:
                got = None
            if want is None or got != want:
                raise V(impl, 'sid-differs-from-handler', 'overlapping-opens|' + kind,
                        'open #%d of %d overlapping ones: OPEN says %r, its connect handler got %r'
                        % (i, n, got, want), rep)
        if ctx:
            ctx.case(rep, True, [impl, 'overlapping-opens', 'kind-' + kind])
    finally:
        w.teardown()


def run_shard(ctx):
    quick = ctx.tier == 'quick'
    allc = list(cells())
    mine = [c for i, c in enumerate(allc) if i % ctx.nshards == ctx.shard]
    mine.sort(key=lambda c: h64([ctx.base_seed, repr(c)]))
    if quick:
        mine = mine[:len(mine) // 4]
    else:
        ctx.exhaustive = True
    for c in mine:
        if ctx.over_budget():
            ctx.exhaustive = False
            break
        try:
            check_cell(c, ctx)
        except Violation as v:
            if ctx.is_known(v):
                ctx.note_known(v)
            elif v.signature not in ctx.ignored:
                ctx.add_violation(v)
    ctx.notes.append('grid size %d feasible cells' % len(allc))
    if ctx.shard < 4:
        impl = 'thread' if ctx.shard % 2 == 0 else 'async'
        kind = 'polling' if ctx.shard < 2 else 'websocket'
        for n in (2, 3, 5):
            try:
                check_overlapping_opens(impl, kind, n, ctx)
            except Violation as v:
                if ctx.is_known(v):
                    ctx.note_known(v)
                elif v.signature not in ctx.ignored:
                    ctx.add_violation(v)


def replay(case, ctx):
    if 'overlap' in case:
        return check_overlapping_opens(*case['overlap'])
    c = case['cell']
    check_cell(tuple(c), greets=case.get('greets', 0))
