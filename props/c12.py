"""C12 - Request admission: only well-addressed version-4 requests are let in."""
import itertools

from hypothesis import strategies as st

from vk.runner import Violation, run_given
from vk.machine import Exec, find_tag
from vk import refmodel as rm

ID = 'C12'
LEVEL = 'exploration'
RULE = ('Cells of the cross product method {GET, POST, OPTIONS, PUT, DELETE, HEAD, PATCH} x EIO '
        '{absent, 4, 3, empty, 44, 4 twice, 4 and 3 in either order} x transport {absent, polling, websocket, bogus, '
        'Polling} x sid kind {absent, live polling, live upgraded, mid-upgrade, closed-not-reaped, '
        'unknown, rejected} x request kind {plain HTTP, WebSocket upgrade, GET with Upgrade: '
        'websocket, h2c, GET with Upgrade but no Connection header, GET asking to upgrade to h2c (an ordinary GET)} x JSONP index {absent, '
        '0, 12, x, empty} x configured transports {both, polling, websocket} x server {threaded, '
        'asyncio}; each cell is issued against a freshly built session in the required state with '
        'one tagged message queued and a bystander session. Oracle: reference admission rule '
        '(allowed status set per cell; undecided cells are open and only counted); for every '
        'refused request: no new event, no new session, the queued message still arrives exactly '
        'once afterwards, transport() and liveness of every session unchanged. The whole product '
        'is enumerated in both tiers (exhaustive). Non-trivial: a cell that '
        'violates exactly one rule, or names a session in a non-live state. Distinct: the cell.')
ASSUMPTIONS = ['same kernel assumptions as C03',
               'open cells: OPTIONS without sid and EIO, repeated EIO, empty j=, an upgrade request '
               'on an upgraded or mid-upgrade session, a WebSocket request that names '
               'transport=polling without a sid']

METHODS = ['GET', 'POST', 'OPTIONS', 'PUT', 'DELETE', 'HEAD', 'PATCH']
EIOS = ['absent', '4', '3', 'empty', '44', 'repeated', 'repeated-43', 'repeated-34']
TRANSPORTS = ['absent', 'polling', 'websocket', 'bogus', 'Polling', 'poll', 'socket']
SIDS = ['absent', 'live-polling', 'live-upgraded', 'mid-upgrade', 'closed', 'unknown', 'rejected',
        'empty']     # 'empty': the parameter is there without a value (sid=) - names no session
KINDS = ['http', 'ws', 'ws-connlist', 'ws-list', 'ws-noconn', 'h2c']
# a WebSocket upgrade whose Connection header is a token list (what Firefox sends)
CONNLIST = [('Upgrade', 'websocket'), ('Connection', 'keep-alive, Upgrade')]
# requests whose upgrade headers are not exactly those of a WebSocket upgrade
ODD = {'ws-list': [('Upgrade', 'websocket, h2c'), ('Connection', 'Upgrade')],
       'ws-noconn': [('Upgrade', 'websocket')]}
# an upgrade request for another protocol: an ordinary GET as far as this server is concerned
H2C = [('Upgrade', 'h2c'), ('Connection', 'Upgrade, HTTP2-Settings'), ('HTTP2-Settings', 'AAMAAABkAAQAAP__')]
JSONP = ['absent', '0', '12', 'x', 'empty', 'sup2']
CONFIGS = ['both', 'polling', 'websocket', 'polling-str', 'websocket-str']
IMPLS = ['thread', 'async']


def V(impl, clause, trigger, detail, case):
    return Violation(ID, impl, clause, trigger, detail, case)


def all_cells():
    for c in itertools.product(IMPLS, CONFIGS, SIDS, METHODS, KINDS, EIOS, TRANSPORTS, JSONP):
        if feasible(c):
            yield c


def feasible(c):
    impl, cfg, sidk, method, kind, eio, tr, j = c
    if kind != 'http' and method != 'GET':
        return False
    if sidk == 'empty' and (method not in ('GET', 'POST') or kind not in ('http', 'ws') or
                            tr not in ('absent', 'polling', 'websocket') or j != 'absent' or
                            cfg.endswith('-str')):
        return False
    if kind in ('ws-list', 'ws-noconn', 'ws-connlist', 'h2c') and (
            eio not in ('4', 'absent') or j not in ('absent', 'x') or cfg.endswith('-str')):
        return False            # the odd-header kinds vary sid, transport and configuration
    if cfg.startswith('polling') and sidk in ('live-upgraded', 'mid-upgrade'):
        return False
    if cfg.startswith('websocket') and sidk in ('live-polling', 'mid-upgrade', 'closed'):
        return False
    if cfg.endswith('-str') and (eio in ('3', 'empty', '44', 'repeated-43', 'repeated-34') or
                                 j in ('12', 'empty')):
        return False            # keep the product small: the string form varies transport only
    return True


def ref_admission(c):
    """-> ('refuse', {statuses}, why) | ('admit',) | ('open', why)"""
    if c[4] == 'ws-connlist':
        return ref_admission(c[:4] + ('ws',) + c[5:])
    if c[4] == 'h2c':
        return ref_admission(c[:4] + ('http',) + c[5:])
    if c[4] in ODD:
        # such a request is either an ordinary GET or an upgrade request: certain only where
        # both readings agree
        a = ref_admission(c[:4] + ('http',) + c[5:])
        b = ref_admission(c[:4] + ('ws',) + c[5:])
        if a[0] == 'refuse' and b[0] == 'refuse':
            return ('refuse', set(a[1]) | set(b[1]), sorted(set(a[2]) | set(b[2])))
        return ('open', 'upgrade headers that are not exactly those of a websocket upgrade')
    impl, cfg, sidk, method, kind, eio, tr, j = c
    if sidk == 'empty':
        # a sid parameter without a value names no session: the request is judged like one
        # without the parameter
        sidk = 'absent'
    allowed_tr = {'both': ['polling', 'websocket'], 'polling': ['polling'],
                  'websocket': ['websocket'], 'polling-str': ['polling'],
                  'websocket-str': ['websocket']}[cfg]
    eff_tr = 'polling' if tr == 'absent' else tr
    bad_method = method not in ('GET', 'POST', 'OPTIONS')
    viol = []
    if eio == 'repeated' and sidk == 'absent':
        return ('open', 'repeated EIO')
    if j == 'empty':
        return ('open', 'empty JSONP index')
    if eff_tr not in allowed_tr:
        viol.append('transport-not-allowed')
    if sidk == 'absent' and eio != '4':
        viol.append('version')
    if j in ('x', 'sup2'):
        viol.append('jsonp-index')
    if sidk in ('closed', 'unknown', 'rejected'):
        viol.append('sid-not-live')
    if method == 'OPTIONS' and 'sid-not-live' in viol:
        return ('open', 'OPTIONS (preflight) naming a session that is not live')
    if method == 'OPTIONS' and not viol:
        return ('admit',)
    if method == 'OPTIONS' and sidk == 'absent' and eio == 'absent':
        return ('open', 'OPTIONS without sid and EIO')
    if method == 'POST' and sidk == 'absent':
        viol.append('post-without-session')
    if method == 'GET' and sidk in ('live-polling', 'live-upgraded', 'mid-upgrade') and \
            eff_tr in allowed_tr:
        sess_tr = 'websocket' if sidk == 'live-upgraded' else 'polling'
        if kind == 'ws':
            if sidk != 'live-polling' and eff_tr == 'websocket':
                return ('open', 'upgrade request on an upgraded / upgrading session')
            if eff_tr == 'websocket' and sess_tr == 'polling':
                pass                       # a WebSocket upgrade of it
            elif eff_tr == sess_tr == 'polling':
                # transport=polling with upgrade headers: an upgrade if websocket is allowed
                return ('open', 'upgrade headers with transport=polling')
            else:
                viol.append('read-on-wrong-transport')
        elif eff_tr != sess_tr:
            viol.append('read-on-wrong-transport')
    if method == 'GET' and sidk == 'absent' and not viol:
        if kind == 'ws' and eff_tr == 'polling':
            return ('open', 'websocket request naming transport=polling')
        if kind == 'http' and eff_tr == 'websocket':
            viol.append('websocket-open-without-upgrade')
    if bad_method and viol:
        return ('refuse', {400, 405}, viol)
    if bad_method:
        return ('refuse', {405}, ['method'])
    if viol:
        return ('refuse', {400}, viol)
    return ('admit',)


def build_query(c, sid):
    impl, cfg, sidk, method, kind, eio, tr, j = c
    parts = []
    if tr != 'absent':
        parts.append('transport=' + tr)
    if eio == '4':
        parts.append('EIO=4')
    elif eio == '3':
        parts.append('EIO=3')
    elif eio == 'empty':
        parts.append('EIO=')
    elif eio == '44':
        parts.append('EIO=44')
    elif eio == 'repeated':
        parts.append('EIO=4&EIO=4')
    elif eio == 'repeated-43':
        parts.append('EIO=4&EIO=3')     # names another version as well: not a version-4 request
    elif eio == 'repeated-34':
        parts.append('EIO=3&EIO=4')
    if sid is not None:
        parts.append('sid=' + sid)
    if j == 'empty':
        parts.append('j=')
    elif j == 'sup2':
        parts.append('j=%C2%B2')        # SUPERSCRIPT TWO: a digit character, not a number
    elif j != 'absent':
        parts.append('j=' + j)
    return '&'.join(parts)


def setup_state(ex, c):
    """Bring a fresh world into the state the cell needs. Returns (sess|None, sid|None)."""
    impl, cfg, sidk, method, kind, eio, tr, j = c
    first = 'websocket' if cfg.startswith('websocket') else 'polling'
    ex.do({'op': 'open', 'transport': first, 'autopong': False, 'autopoll': False})   # bystander
    if sidk == 'absent':
        return None, None
    if sidk == 'empty':
        return None, ''
    if sidk == 'unknown':
        return None, 'AAAAnosuchsessionAAAA'
    if sidk == 'rejected':
        ex.do({'op': 'open', 'transport': first, 'connect': ['ret', rm.tag(False)]})
        s = ex.sessions[1]
        return s, ex.sid_of(s)
    ex.do({'op': 'open', 'transport': 'websocket' if (sidk == 'live-upgraded' and
                                                      cfg.startswith('websocket')) else 'polling'})
    s = ex.sessions[1]
    i = 1
    if sidk == 'live-upgraded' and not cfg.startswith('websocket'):
        ex.do({'op': 'upg_connect', 's': i})
        ex.do({'op': 'ws_send', 's': i, 'sock': 'upg', 'frame': rm.tag('2probe')})
        ex.do({'op': 'ws_send', 's': i, 'sock': 'upg', 'frame': rm.tag('5')})
    elif sidk == 'mid-upgrade':
        ex.do({'op': 'upg_connect', 's': i})
    elif sidk == 'closed':
        ex.do({'op': 'post', 's': i, 'pkts': [[1, rm.tag(None)]]})
    if sidk in ('live-polling', 'live-upgraded', 'mid-upgrade'):
        ex.do({'op': 'app_send', 's': i, 'data': rm.tag('S1.1~queued')})
    return s, ex.sid_of(s)


def snapshot(ex, skip=()):
    out = {'events': len(ex.world.app_log.events)}
    tr = {}
    for s in ex.sessions:
        sid = ex.sid_of(s)
        if sid is None or s.ord in skip:
            continue
        c = ex.world.call('transport', sid)
        ex.world.settle()
        tr[s.ord] = ('err', type(c.exc).__name__) if c.exc is not None else ('ok', c.result)
    out['transport'] = tr
    return out


def check_cell(c, ctx=None):
    impl, cfg, sidk, method, kind, eio, tr, j = c
    rep = {'cell': list(c)}
    ref = ref_admission(c)
    transports = {'both': None, 'polling': ['polling'], 'websocket': ['websocket'],
                  'polling-str': 'polling', 'websocket-str': 'websocket'}[cfg]
    ex = Exec(impl, {'transports': transports, 'http_compression': False})
    try:
        s, sid = setup_state(ex, c)
        # looking up a closed session reaps it: do not disturb the closed-not-reaped state
        skip = (1,) if sidk in ('closed', 'rejected') else ()
        before = snapshot(ex, skip)
        q = build_query(c, sid)
        isws = kind in ('ws', 'ws-connlist') or (kind in ODD and impl == 'thread')
        if kind == 'ws':
            r = ex.world.ws_open(q, headers=[('Host', 'localhost')])
        elif kind == 'ws-connlist':
            r = ex.world.ws_open(q, headers=[('Host', 'localhost')], upgrade_hdrs=CONNLIST)
        elif kind in ODD and impl == 'thread':
            # a WSGI gateway with WebSocket support can upgrade any GET the application chooses
            r = ex.world.ws_open(q, headers=[('Host', 'localhost')], upgrade_hdrs=ODD[kind])
        elif kind == 'h2c':
            r = ex.world.http('GET', q, headers=[('Host', 'localhost')] + H2C)
        elif kind in ODD:
            # an ASGI server opens a websocket scope only for an exact upgrade request
            r = ex.world.http('GET', q, headers=[('Host', 'localhost')] + ODD[kind])
        else:
            r = ex.world.http(method, q, headers=[('Host', 'localhost')],
                              body=b'4C1.9~x' if method == 'POST' else b'')
        ex.world.settle()
        if isws:
            status = 'accepted' if r.accepted else (r.http_status or 'rejected')
            done = True
        else:
            status, done = r.status, r.done
        # (an ASGI websocket scope that is answered as a polling open gets 'websocket.accept' from
        # the driver without any transport being used: open cell, see ref_admission)
        if (kind in ODD or (kind not in ('http', 'h2c') and sidk not in ('absent', 'empty'))) and \
                cfg.startswith('polling') and (
                getattr(r, 'accepted', False) or getattr(r, 'ws_attempt', False)):
            raise V(impl, 'inadmissible-websocket-accepted',
                    'WS|sid=%s|transport-not-allowed|%s' % (sidk, kind),
                    'cell %s: the server spoke WebSocket although transports=polling '
                    '(query %r, request kind %s)' % (c, q, kind), rep)
        trig = '%s|sid=%s|%s' % (method if kind == 'http' else ('GET+h2c' if kind == 'h2c' else 'WS'), sidk,
                                 '+'.join(ref[2]) if ref[0] == 'refuse' else ref[0])
        if ref[0] == 'refuse':
            if isws:
                refused = not r.accepted or (r.done and not r.sent)
                if not refused:
                    raise V(impl, 'inadmissible-websocket-accepted', trig,
                            'cell %s: WebSocket accepted (query %r)' % (c, q), rep)
                if r.exc is not None and ref[2] != ['method']:
                    pass        # refusal by exception: C15 does not cover upgrade requests
            else:
                if r.exc is not None:
                    raise V(impl, 'refusal-raised', trig + '|' + type(r.exc).__name__,
                            'cell %s: %r escaped' % (c, r.exc), rep)
                if not done:
                    raise V(impl, 'inadmissible-request-held', trig,
                            'cell %s: request still pending' % (c,), rep)
                if status not in ref[1]:
                    raise V(impl, 'inadmissible-request-not-refused', trig + '|got=%s' % status,
                            'cell %s: status %s, allowed %s (query %r)' % (
                                c, status, sorted(ref[1]), q), rep)
            # a refused request has no effect at all
            after = snapshot(ex, skip)
            if after['events'] != before['events']:
                raise V(impl, 'refused-request-fired-event', trig,
                        'cell %s: events %r' % (c, ex.world.app_log.events[before['events']:]), rep)
            if after['transport'] != before['transport']:
                raise V(impl, 'refused-request-changed-session', trig,
                        'cell %s: transport()/liveness before %r after %r' % (
                            c, before['transport'], after['transport']), rep)
            if sidk in ('live-polling', 'live-upgraded', 'mid-upgrade'):
                check_queue_intact(ex, c, rep, trig)
        elif ref[0] == 'admit':
            if not isws:
                if r.exc is not None:
                    raise V(impl, 'admissible-request-raised', trig + '|' + type(r.exc).__name__,
                            'cell %s: %r escaped' % (c, r.exc), rep)
                if done and status in (400, 405) and not (method == 'POST' and status == 400
                                                          and False):
                    raise V(impl, 'admissible-request-refused', trig + '|got=%s' % status,
                            'cell %s: status %s (query %r) body %r' % (c, status, q, r.resp_body),
                            rep)
            else:
                if not r.accepted:
                    raise V(impl, 'admissible-websocket-refused', trig,
                            'cell %s: not accepted (query %r)' % (c, q), rep)
        if ctx:
            nt = (ref[0] == 'refuse' and len(ref[2]) == 1) or sidk in ('mid-upgrade', 'closed',
                                                                      'rejected', 'live-upgraded')
            ctx.case(rep, nt, [impl, 'ref-' + ref[0], 'sid-' + sidk, 'kind-' + kind,
                               'status-%s' % status])
    finally:
        ex.close()


def check_queue_intact(ex, c, rep, trig):
    impl, cfg, sidk = c[0], c[1], c[2]
    s = ex.sessions[1]
    if sidk == 'live-polling':
        ex.do({'op': 'poll', 's': 1})
    elif sidk == 'mid-upgrade':
        ex.do({'op': 'ws_send', 's': 1, 'sock': 'upg', 'frame': rm.tag('2probe')})
        ex.do({'op': 'ws_send', 's': 1, 'sock': 'upg', 'frame': rm.tag('5')})
    ex.collect()
    tags = [find_tag(p) for (t, via, pt, p, w) in s.received if pt == 4]
    if tags.count('S1.1~') != 1:
        raise V(impl, 'refused-request-consumed-queued-packet', trig,
                'cell %s: the message queued before the refused request was delivered %d times '
                'afterwards' % (c, tags.count('S1.1~')), rep)


def run_shard(ctx):
    quick = ctx.tier == 'quick'
    cells = list(all_cells())
    from vk.runner import h64
    mine = [c for i, c in enumerate(cells) if i % ctx.nshards == ctx.shard]
    mine.sort(key=lambda c: h64([ctx.base_seed, list(c)]))      # seed-dependent order
    ctx.exhaustive = True                                       # the whole product, both tiers
    for c in mine:
        if ctx.over_budget():
            ctx.exhaustive = False
            break
        try:
            check_cell(c, ctx)
        except Violation as v:
            if ctx.is_known(v):
                ctx.note_known(v)
            elif v.signature not in ctx.ignored:
                ctx.add_violation(v)
    ctx.notes.append('product size %d feasible cells' % len(cells))


def replay(case, ctx):
    check_cell(tuple(case['cell']))
