"""C13 - Origin policy is enforced before anything else and CORS headers never over-grant."""
from hypothesis import strategies as st

from vk.runner import Violation, run_given
from vk.machine import Exec, find_tag
from vk import refmodel as rm

ID = 'C13'
LEVEL = 'exploration'
RULE = ('Hypothesis draws cors_allowed_origins {None, *, string, list, predicate, []} x '
        'cors_credentials x Host (also no Host header at all) / scheme / X-Forwarded-Proto / X-Forwarded-Host (single values and '
        'comma lists) x Origin {absent, empty, same-origin, forwarded origin, a listed origin, '
        'near-misses of each allowed origin (prefix, suffix, case, port, scheme, trailing slash, '
        'sub-domain), the request\'s own origin under an explicit origin / list / predicate, mixtures of the direct scheme / host with the forwarded host / scheme, foreign} x request kind {open, poll, post, OPTIONS (bare or a full preflight naming the method to come), upgrade of a session, '
        'WebSocket open} x server. Each case runs on a fresh world holding one live session with a '
        'queued tagged message. Oracle: reference allow-set from the statement (exact string '
        'match); not allowed => 400 / WebSocket never accepted, no event, no new session, queue '
        'untouched; allowed or absent => same status and packets as the twin request without the '
        'header; Access-Control-Allow-Origin only with the value of an allowed request Origin, '
        'Allow-Credentials only when enabled, nothing at all with []. Non-trivial: a near-miss '
        'origin, or forwarded headers present, or a predicate / list configuration. Distinct: '
        'hash of the case.')
ASSUMPTIONS = ['same kernel assumptions as C03',
               'empty Origin may be treated as absent or refused',
               'ASGI requests are generated with scheme http/ws; with X-Forwarded-Proto present the '
               "request's own-scheme origin is an open cell on ASGI (the driver derives the scheme "
               'from that header)']

HOSTS = ['localhost', 'app.example.com', 'app.example.com:8080']
LISTED = ['http://allowed.example', 'https://b.example:8443']


def V(impl, clause, trigger, detail, case):
    return Violation(ID, impl, clause, trigger, detail, case)


def predicate(origin):
    return isinstance(origin, str) and origin.endswith('.ok.example')


def cors_value(name):
    return {'none': None, 'star': '*', 'string': LISTED[0], 'list': list(LISTED),
            'callable': predicate, 'empty': []}[name]


def ref_allowed(case):
    """-> ('all',) | ('set', {...}, open_set) | ('pred',) | ('nocheck',)"""
    cfg = case['cors']
    if cfg == 'empty':
        return ('nocheck',)
    if cfg == 'star':
        return ('all',)
    if cfg == 'string':
        return ('set', {LISTED[0]}, set())
    if cfg == 'list':
        return ('set', set(LISTED), set())
    if cfg == 'callable':
        return ('pred',)
    if case['host'] is None:
        # a request without a Host header (HTTP/1.0 client, hand-built environ): its own origin
        # is unknown, so under the default policy no Origin is the request's own
        opens = set()
        if case.get('xfh') is not None:
            for proto in (case.get('xfp') or case['scheme'], case['scheme']):
                opens.add('%s://%s' % (proto.split(',')[0].strip(),
                                       case['xfh'].split(',')[0].strip()))
        return ('set', set(), opens)
    own = '%s://%s' % (case['scheme'], case['host'])
    allowed = {own}
    opens = set()
    xfp, xfh = case.get('xfp'), case.get('xfh')
    if xfp is not None or xfh is not None:
        proto = (xfp if xfp is not None else case['scheme']).split(',')[0].strip()
        host = (xfh if xfh is not None else case['host']).split(',')[0].strip()
        allowed.add('%s://%s' % (proto, host))
        if case['impl'] == 'async' and xfp is not None:
            opens.add(own)          # ASGI driver derives the scheme from X-Forwarded-Proto
            allowed.discard(own)
            allowed.add('%s://%s' % (proto, host))
            opens.add('%s://%s' % (xfp, case['host']))
    return ('set', allowed, opens)


def origin_status(case):
    """'absent' | 'allowed' | 'refused' | 'open'"""
    o = case['origin']
    if o is None:
        return 'absent'
    ref = ref_allowed(case)
    if ref[0] == 'nocheck':
        return 'allowed'
    if o == '':
        return 'open'
    if ref[0] == 'all':
        return 'allowed'
    if ref[0] == 'pred':
        return 'allowed' if predicate(o) else 'refused'
    if o in ref[2]:
        return 'open'
    return 'allowed' if o in ref[1] else 'refused'


@st.composite
def case_st(draw):
    impl = draw(st.sampled_from(['thread', 'async']))
    cors = draw(st.sampled_from(['none', 'none', 'star', 'string', 'list', 'callable', 'empty']))
    case = {'impl': impl, 'cors': cors, 'cred': draw(st.booleans()),
            'host': draw(st.sampled_from(HOSTS)),
            'scheme': 'http' if impl == 'async' else draw(st.sampled_from(['http', 'https'])),
            'kind': draw(st.sampled_from(['open', 'poll', 'post', 'options', 'upgrade',
                                          'ws-open']))}
    if draw(st.integers(0, 2)) == 0:
        case['xfp'] = draw(st.sampled_from(['https', 'http', 'https, http', ' https ', 'HTTPS']))
    if draw(st.integers(0, 2)) == 0:
        case['xfh'] = draw(st.sampled_from(['public.example.org', 'public.example.org, inner',
                                            'public.example.org:444']))
    if case['kind'] == 'options' and draw(st.booleans()):
        # a real CORS preflight names the method (and headers) of the request to come
        case['preflight'] = draw(st.sampled_from(['POST', 'GET', 'DELETE']))
    if draw(st.integers(0, 7)) == 0:
        case['host'] = None         # no Host header at all
    ref = ref_allowed(case)
    bases = sorted(ref[1]) if ref[0] == 'set' else ['http://x.ok.example'] if ref[0] == 'pred' \
        else ['http://anything.example']
    choices = ['absent', 'empty', 'allowed', 'allowed', 'near', 'near', 'near', 'foreign']
    if cors == 'none' and ('xfp' in case or 'xfh' in case):
        choices += ['mixed', 'mixed', 'mixed']
    if cors in ('string', 'list', 'callable'):
        choices += ['own', 'own']
    if case['host'] is None:
        choices = ['absent', 'empty', 'foreign', 'foreign', 'hostless-guess'] + (
            ['allowed', 'near'] if cors not in ('none',) else [])
    choice = draw(st.sampled_from(choices))
    if choice == 'hostless-guess':
        case['origin'] = draw(st.sampled_from(['http://localhost', 'http://', 'http://None',
                                               'https://app.example.com']))
        case['near'] = 'no-host-header'
        return case
    if choice == 'own':
        # the request's own origin (direct or as forwarded): allowed by default, but with an
        # explicit origin, list or predicate only that decides
        proto = (case.get('xfp') or case['scheme']).split(',')[0].strip()
        fhost = (case.get('xfh') or case['host']).split(',')[0].strip()
        case['origin'] = draw(st.sampled_from(['%s://%s' % (case['scheme'], case['host']),
                                               '%s://%s' % (proto, fhost)]))
        case['near'] = 'own-origin-under-explicit-policy'
        return case
    if choice == 'mixed':
        # the direct scheme with the forwarded host, or the forwarded scheme with the direct host:
        # neither the request's own origin nor the origin seen through the proxy
        proto = (case.get('xfp') or case['scheme']).split(',')[0].strip()
        fhost = (case.get('xfh') or case['host']).split(',')[0].strip()
        case['origin'] = draw(st.sampled_from(['%s://%s' % (case['scheme'], fhost),
                                               '%s://%s' % (proto, case['host']),
                                               '%s://%s' % (proto.lower(), fhost)]))
        case['near'] = 'mixed-direct-and-forwarded'
        return case
    if choice == 'absent':
        case['origin'] = None
    elif choice == 'empty':
        case['origin'] = ''
    elif choice == 'allowed':
        case['origin'] = draw(st.sampled_from(bases))
    elif choice == 'foreign':
        case['origin'] = draw(st.sampled_from(['http://evil.example', 'null', 'https://localhost.evil',
                                               'file://', 'http://ok.example']))
    else:
        b = draw(st.sampled_from(bases))
        m = draw(st.sampled_from(['suffix', 'prefix', 'trunc', 'upper', 'port', 'scheme', 'slash',
                                  'subdomain', 'space', 'userinfo', 'twice']))
        case['origin'] = mutate(b, m)
        case['near'] = m
    return case


def mutate(b, m):
    scheme, rest = b.split('://', 1)
    return {
        'suffix': b + '.evil.com', 'prefix': 'x' + b, 'trunc': b[:-1], 'upper': b.upper(),
        'port': b + ':81', 'scheme': ('https' if scheme == 'http' else 'http') + '://' + rest,
        'slash': b + '/', 'subdomain': scheme + '://evil.' + rest, 'space': b + ' ',
        'userinfo': scheme + '://' + rest + '@evil.com', 'twice': b + ',' + b,
    }[m]


def headers_of(case, with_origin=True):
    h = [('Host', case['host'])] if case['host'] is not None else []
    if case.get('xfp') is not None:
        h.append(('X-Forwarded-Proto', case['xfp']))
    if case.get('xfh') is not None:
        h.append(('X-Forwarded-Host', case['xfh']))
    if with_origin and case['origin'] is not None:
        h.append(('Origin', case['origin']))
    if case.get('preflight'):
        h.append(('Access-Control-Request-Method', case['preflight']))
        h.append(('Access-Control-Request-Headers', 'content-type'))
    return h


def run_request(case, with_origin):
    """Fresh world, one live session with a queued message, then the request. Returns obs."""
    ex = Exec(case['impl'], {'cors_allowed_origins': cors_value(case['cors']),
                             'cors_credentials': case['cred'], 'http_compression': False})
    try:
        ex.do({'op': 'open', 'transport': 'polling'})
        ex.do({'op': 'app_send', 's': 0, 'data': rm.tag('S0.1~q')})
        sid = ex.sid_of(ex.sessions[0])
        n_ev = len(ex.world.app_log.events)
        n_sess = len(ex.world.app_log.sid_ord) + 0
        h = headers_of(case, with_origin)
        w = ex.world
        kind = case['kind']
        scheme = case['scheme']
        is_ws = kind in ('upgrade', 'ws-open')
        if kind == 'open':
            r = w.http('GET', 'transport=polling&EIO=4', headers=h, scheme=scheme)
        elif kind == 'poll':
            r = w.http('GET', 'transport=polling&EIO=4&sid=' + sid, headers=h, scheme=scheme)
        elif kind == 'post':
            r = w.http('POST', 'transport=polling&EIO=4&sid=' + sid, headers=h, body=b'4C0.1~m',
                       scheme=scheme)
        elif kind == 'options':
            r = w.http('OPTIONS', 'transport=polling&EIO=4&sid=' + sid, headers=h, scheme=scheme)
        elif kind == 'upgrade':
            r = w.ws_open('transport=websocket&EIO=4&sid=' + sid, headers=h,
                          scheme=scheme if case['impl'] == 'thread' else 'ws')
        else:
            r = w.ws_open('transport=websocket&EIO=4', headers=h,
                          scheme=scheme if case['impl'] == 'thread' else 'ws')
        w.settle()
        obs = {'events': [(e, a if e != 'connect' else None)
                          for (_, e, _, a) in w.app_log.events[n_ev:]],
               'connects': sum(1 for e in w.app_log.events[n_ev:] if e[1] == 'connect')}
        if is_ws:
            obs['status'] = 'accepted' if r.accepted else 'refused'
            obs['frames'] = [f[:1] if isinstance(f, str) else 'bin' for f in r.frames()]
            obs['hdrs'] = list(r.resp_headers)
            obs['exc'] = repr(r.exc) if r.exc else None
        else:
            obs['status'] = r.status if r.done else 'pending'
            obs['hdrs'] = list(r.resp_headers)
            obs['exc'] = repr(r.exc) if r.exc else None
            body = (r.resp_body or b'')
            try:
                obs['ptypes'] = [p[:1] for p in body.decode().split(rm.SEP)] \
                    if r.status == 200 and kind in ('open', 'poll') else None
            except UnicodeDecodeError:
                obs['ptypes'] = None
        # is the queued message still there?
        if kind != 'poll' or obs['status'] != 200:
            if kind == 'upgrade' and obs['status'] == 'accepted':
                pass
            else:
                ex.do({'op': 'poll', 's': 0})
        tags = [find_tag(p) for (t, via, pt, p, wh) in ex.sessions[0].received if pt == 4]
        if kind == 'poll' and obs['status'] == 200:
            ex.collect()
            r.role = 'poll'
            try:
                tags = [find_tag(rm.ref_decode_packet(x)[2][0])
                        for x in (r.resp_body or b'').decode().split(rm.SEP)
                        if x[:1] == '4']
            except Exception:
                tags = []
        obs['queued_delivered'] = tags.count('S0.1~')
        return obs
    finally:
        ex.close()


def check_case(case, ctx=None):
    impl = case['impl']
    rep = dict(case)
    status = origin_status(case)
    obs = run_request(case, True)
    o = case['origin']
    trig = '%s|%s|%s' % (case['cors'], case['kind'], case.get('near') or
                         ('empty' if o == '' else 'foreign' if status == 'refused' else status))
    hd = {}
    for k, v in obs['hdrs']:
        hd.setdefault(k.lower(), []).append(v)
    acao = hd.get('access-control-allow-origin')
    acac = hd.get('access-control-allow-credentials')
    # CORS headers never over-grant
    if case['cors'] == 'empty':
        if acao or acac or any(k.startswith('access-control-') for k in hd):
            raise V(impl, 'cors-header-with-cors-disabled', case['kind'],
                    'cors_allowed_origins=[] but headers %r' % (obs['hdrs'],), rep)
    if acao:
        if o is None or acao != [o]:
            raise V(impl, 'allow-origin-not-the-request-origin', trig,
                    'Access-Control-Allow-Origin %r, request Origin %r' % (acao, o), rep)
        if status == 'refused':
            raise V(impl, 'allow-origin-echoes-refused-origin', trig,
                    'Origin %r is not allowed but was echoed' % (o,), rep)
    if acac and not case['cred']:
        raise V(impl, 'allow-credentials-while-disabled', case['kind'],
                'Access-Control-Allow-Credentials %r with cors_credentials=False' % (acac,), rep)
    if status == 'refused':
        ok = obs['status'] in (400, 'refused')
        if not ok:
            raise V(impl, 'refused-origin-let-in', trig + '|got=%s' % obs['status'],
                    'Origin %r is not allowed (%s) but the %s request got %s' % (
                        o, case['cors'], case['kind'], obs['status']), rep)
        if obs['events'] or obs['connects']:
            raise V(impl, 'refused-origin-fired-event', trig, 'events %r' % (obs['events'],), rep)
        if obs['queued_delivered'] != 1:
            raise V(impl, 'refused-origin-touched-queue', trig,
                    'queued message delivered %d times after the refused request' % obs[
                        'queued_delivered'], rep)
    elif status in ('allowed', 'absent'):
        twin = run_request(case, False) if status == 'allowed' else None
        if twin is not None:
            for key in ('status', 'events', 'queued_delivered'):
                if obs[key] != twin[key]:
                    raise V(impl, 'allowed-origin-changes-behaviour', trig + '|' + key,
                            'with Origin %r: %s=%r; without: %r' % (o, key, obs[key], twin[key]),
                            rep)
            if obs.get('ptypes') != twin.get('ptypes'):
                raise V(impl, 'allowed-origin-changes-behaviour', trig + '|packets',
                        'with Origin: %r; without: %r' % (obs.get('ptypes'), twin.get('ptypes')),
                        rep)
    if ctx:
        nt = bool(case.get('near')) or case['host'] is None or case.get('xfp') is not None or case.get('xfh') is not None \
            or case['cors'] in ('callable', 'list')
        ctx.case(rep, nt, [impl, 'origin-' + status] + (['preflight-with-request-method'] if case.get('preflight') else []) + (['no-host-header'] if case['host'] is None else []) + [ 'cors-' + case['cors'], 'kind-' + case['kind'],
                           'status-%s' % obs['status']])


# -- a predicate whose answer changes (an allow-list edited at run time) -----------------------
flip_st = st.fixed_dictionaries({
    'flip': st.just(True),
    'impl': st.sampled_from(['thread', 'async']),
    'first': st.sampled_from(['allowed', 'refused']),       # the verdict on the first request
    'kinds': st.lists(st.sampled_from(['open', 'poll', 'post', 'options']), min_size=2,
                      max_size=4),
    'flip_after': st.integers(1, 3),
})


def check_flip(case, ctx=None):
    """The policy is whatever the predicate says at the time of each request."""
    impl = case['impl']
    origin = 'http://tenant.example'
    allowed = set([origin] if case['first'] == 'allowed' else [])
    ex = Exec(impl, {'cors_allowed_origins': lambda o: o in allowed, 'http_compression': False})
    rep = dict(case)
    try:
        ex.do({'op': 'open', 'transport': 'polling'})
        sid = ex.sid_of(ex.sessions[0])
        w = ex.world
        h = [('Host', 'localhost'), ('Origin', origin)]
        for i, kind in enumerate(case['kinds']):
            if i == case['flip_after']:
                if origin in allowed:
                    allowed.discard(origin)
                else:
                    allowed.add(origin)
            n_ev = len(w.app_log.events)
            if kind == 'open':
                r = w.http('GET', 'transport=polling&EIO=4', headers=h)
            elif kind == 'poll':
                ex.do({'op': 'app_send', 's': 0, 'data': rm.tag('S0.%d~q' % (i + 1))})
                r = w.http('GET', 'transport=polling&EIO=4&sid=' + sid, headers=h)
            elif kind == 'post':
                r = w.http('POST', 'transport=polling&EIO=4&sid=' + sid, headers=h,
                           body=b'4C0.%d~m' % (i + 1))
            else:
                r = w.http('OPTIONS', 'transport=polling&EIO=4&sid=' + sid, headers=h)
            w.settle()
            ok_now = origin in allowed
            trig = '%s|request-%d|%s' % (kind, i + 1, 'after-revoke' if not ok_now and
                                          case['first'] == 'allowed' else
                                          'after-grant' if ok_now and case['first'] == 'refused'
                                          else 'steady')
            acao = [v for k, v in r.resp_headers if k.lower() == 'access-control-allow-origin']
            if not ok_now:
                if not r.done or r.status != 400:
                    raise V(impl, 'refused-origin-let-in', 'callable|' + trig + '|got=%s' % r.status,
                            'the predicate refuses %r now, the %s request got %s' % (
                                origin, kind, r.status), rep)
                if len(w.app_log.events) != n_ev:
                    raise V(impl, 'refused-origin-fired-event', 'callable|' + trig,
                            'events %r' % (w.app_log.events[n_ev:],), rep)
                if acao:
                    raise V(impl, 'allow-origin-echoes-refused-origin', 'callable|' + trig,
                            'Origin %r is refused now but was echoed' % origin, rep)
            else:
                if r.done and r.status == 400:
                    raise V(impl, 'allowed-origin-changes-behaviour', 'callable|' + trig + '|status',
                            'the predicate allows %r now, the %s request got 400' % (origin, kind),
                            rep)
        if ctx:
            ctx.case(rep, True, [impl, 'predicate-verdict-changes', 'first-' + case['first']])
    finally:
        ex.close()


def run_shard(ctx):
    quick = ctx.tier == 'quick'
    run_given(ctx, flip_st, lambda c: check_flip(c, ctx), max_examples=10 if quick else 200)
    run_given(ctx, case_st(), lambda c: check_case(c, ctx), max_examples=400 if quick else 12000)


def replay(case, ctx):
    if case.get('flip'):
        return check_flip(case)
    check_case(case)
