"""C14 - Inbound size and volume limits are exact and nothing oversize reaches the app."""
from hypothesis import strategies as st

from vk.runner import Violation, run_given
from vk.machine import Exec
from vk import refmodel as rm

ID = 'C14'
LEVEL = 'exploration'
RULE = ('Hypothesis draws max_http_buffer_size from {1, 2, 5, 16, 100, 1000, default}, a carrier '
        '{POST body (plain or the JSONP form d=...), frame on an established WebSocket (ws-first or upgraded), first frame and '
        'second frame of an upgrade socket}, a length from {limit-2..limit+2, 0, 1, 10*limit}, '
        'text, binary or base64-text (b...) content, a declared Content-Length smaller / equal / larger than the body or none at all (chunked), '
        'the configured per-body packet limit {16 (default), 1, 4, 40} and the number of packets in the body 0..limit+2, and the number of body chunks; each case runs on a '
        'fresh world of either server. Oracle: no message event from a body declared over the '
        'limit or from a frame longer than it; every wsgi.input.read(n) has 0 <= n <= min(declared, '
        'limit) and the ASGI driver calls receive() for more body only while it holds fewer bytes '
        'than that; a body or frame of '
        'exactly the limit is accepted and processed; an oversize POST is answered 400 and ends '
        'the session, an oversize frame on an established WebSocket ends the session, an oversize '
        'handshake frame leaves the session on polling; at most the configured number of packets of one body are '
        'dispatched. Non-trivial: length within 2 of the limit, or declared != actual, or >= 15 '
        'packets. Distinct: hash of the case.')
ASSUMPTIONS = ['same kernel assumptions as C03',
               'text frames are measured in characters by the server: exactness is asserted for '
               'ASCII text and for bytes only']

LIMITS = [1, 2, 5, 16, 100, 1000, 1000000]


def V(impl, clause, trigger, detail, case):
    return Violation(ID, impl, clause, trigger, detail, case)


@st.composite
def case_st(draw):
    impl = draw(st.sampled_from(['thread', 'async']))
    L = draw(st.sampled_from(LIMITS))
    carrier = draw(st.sampled_from(['post', 'post', 'post-form', 'post-many', 'ws-frame', 'ws-frame-upgraded',
                                    'upg-first', 'upg-second', 'upg-real-handshake',
                                    'post-to-ws-first', 'post-to-upgraded']))
    big = 10 * L if L < 1000000 else L + 4096
    size = draw(st.sampled_from([L - 2, L - 1, L, L, L + 1, L + 2, 0, 1, big]))
    size = max(0, size)
    kind = draw(st.sampled_from(['text', 'binary', 'b64text'])) if carrier.startswith('ws') \
        else 'text'
    case = {'impl': impl, 'limit': L, 'carrier': carrier, 'size': size,
            'binary': kind == 'binary', 'b64': kind == 'b64text'}
    if carrier in ('post-to-ws-first', 'post-to-upgraded'):
        case['declared'] = draw(st.sampled_from(['equal', 'over-limit']))
        case['chunks'] = 1
    if carrier == 'post':
        case['declared'] = draw(st.sampled_from(['equal', 'equal', 'equal', 'smaller', 'larger',
                                                 'over-limit', 'at-limit', 'absent']))
        case['chunks'] = draw(st.sampled_from([1, 1, 2, 5]))
    if carrier == 'post-many':
        # the per-body packet limit is configuration too (Payload.max_decode_packets)
        case['pkt_limit'] = P = draw(st.sampled_from([16, 16, 16, 1, 4, 40]))
        case['n'] = draw(st.one_of(st.integers(0, P + 2), st.sampled_from([P - 1, P, P + 1, P + 2])))
        case['form'] = draw(st.sampled_from(['plain', 'plain', 'd=quote', 'd=raw-separators']))
        case['limit'] = draw(st.sampled_from([1000, 1000000]))
        case['size'] = None
    return case


def ascii_packet(size):
    """A MESSAGE packet of exactly `size` characters (size >= 1)."""
    return '4' + 'a' * (size - 1)


def check_case(case, ctx=None):
    impl, L, carrier = case['impl'], case['limit'], case['carrier']
    rep = dict(case)
    ex = Exec(impl, {'max_http_buffer_size': L, 'http_compression': False,
                     'async_handlers': False})
    w = ex.world
    from engineio import payload as _payload
    P = case.get('pkt_limit', 16)
    P0 = _payload.Payload.max_decode_packets
    try:
        if P != 16:
            _payload.Payload.max_decode_packets = P     # how an application configures it
        first = 'websocket' if carrier in ('ws-frame', 'post-to-ws-first') else 'polling'
        ex.do({'op': 'open', 'transport': first})
        s = ex.sessions[0]
        sid = ex.sid_of(s)
        if carrier in ('ws-frame-upgraded', 'post-to-upgraded'):
            if L < 6:
                return          # the probe itself does not fit: no upgraded session exists
            ex.do({'op': 'upg_connect', 's': 0})
            ex.do({'op': 'ws_send', 's': 0, 'sock': 'upg', 'frame': rm.tag('2probe')})
            ex.do({'op': 'ws_send', 's': 0, 'sock': 'upg', 'frame': rm.tag('5')})
            if s.main_ws is None:
                raise V(impl, 'upgrade-within-limit-failed', 'limit=%d' % L,
                        'a correct handshake did not complete with limit %d' % L, rep)
        n_ev = len(w.app_log.events)
        msgs = lambda: [a for (_, e, _, a) in w.app_log.events[n_ev:] if e == 'message']  # noqa
        disc = lambda: [a for (_, e, _, a) in w.app_log.events[n_ev:] if e == 'disconnect']  # noqa
        trig = '%s|size-limit=%s' % (carrier, rel(case.get('size'), L))
        if carrier in ('post-to-ws-first', 'post-to-upgraded'):
            # a POST body over the limit ends the session it names - also one that is on WebSocket
            size = case['size']
            body = ascii_packet(size).encode() if size >= 1 else b''
            dec = size if case['declared'] == 'equal' else L + 1
            r = w.http('POST', 'transport=polling&EIO=4&sid=' + sid, body=body, declared=dec,
                       headers=[('Host', 'localhost')])
            w.settle()
            trig = '%s|declared-limit=%s' % (carrier, rel(dec, L))
            if dec > L:
                if msgs():
                    raise V(impl, 'oversize-body-reached-handler', trig,
                            'declared %d > limit %d but message events %r' % (
                                dec, L, [str(m)[:20] for m in msgs()]), rep)
                if not r.done or r.status != 400:
                    raise V(impl, 'oversize-post-not-400', trig,
                            'declared %d > limit %d: done=%s status=%s' % (dec, L, r.done, r.status),
                            rep)
                if not disc():
                    c = w.call('transport', sid)
                    w.settle()
                    if c.exc is None:
                        raise V(impl, 'oversize-post-did-not-end-session', trig,
                                'declared %d > limit %d, the WebSocket session is still up' % (
                                    dec, L), rep)
        elif carrier == 'post-form':
            # the JSONP form d=<packet>: the limit counts the bytes on the wire
            size = case['size']
            if size < 3:
                return
            body = ('d=4' + 'a' * (size - 3)).encode()
            r = w.http('POST', 'transport=polling&EIO=4&sid=' + sid + '&j=0', body=body,
                       headers=[('Host', 'localhost'),
                                ('Content-Type', 'application/x-www-form-urlencoded')])
            w.settle()
            trig = 'post-form|size-limit=%s' % rel(size, L)
            if size > L:
                if msgs():
                    raise V(impl, 'oversize-body-reached-handler', trig,
                            'form body of %d > limit %d but message events %r' % (
                                size, L, [str(m)[:20] for m in msgs()]), rep)
                if not r.done or r.status != 400:
                    raise V(impl, 'oversize-post-not-400', trig,
                            'form body of %d > limit %d: done=%s status=%s' % (
                                size, L, r.done, r.status), rep)
                if not disc():
                    raise V(impl, 'oversize-post-did-not-end-session', trig,
                            'form body of %d > limit %d, no disconnect event' % (size, L), rep)
            else:
                if not r.done or r.status != 200:
                    raise V(impl, 'body-within-limit-refused', trig,
                            'form body of %d bytes (limit %d): done=%s status=%s' % (
                                size, L, r.done, r.status), rep)
                if msgs() != ['a' * (size - 3)]:
                    raise V(impl, 'body-within-limit-not-processed', trig,
                            'form body of %d bytes: message events %r' % (
                                size, [str(m)[:20] for m in msgs()]), rep)
        elif carrier == 'post' and case['declared'] == 'absent':
            # no Content-Length at all (a chunked body): nothing is declared, the limit alone
            # bounds what may be read, and an oversize body never reaches a handler
            size = case['size']
            body = ascii_packet(size).encode() if size >= 1 else b''
            r = w.http('POST', 'transport=polling&EIO=4&sid=' + sid, body=body, declared='absent',
                       chunks=case['chunks'], headers=[('Host', 'localhost'),
                                                       ('Transfer-Encoding', 'chunked')])
            w.settle()
            trig = 'post|no-content-length|size-limit=%s' % rel(size, L)
            if impl == 'thread':
                for n in r.reads:
                    if not isinstance(n, int) or n < 0 or n > L:
                        raise V(impl, 'body-read-beyond-bound', 'wsgi-read|no-content-length',
                                'wsgi.input.read(%r) without a declared length, limit %d' % (
                                    n, L), rep)
            else:
                for k, held in enumerate(r.pulls[1:], 1):
                    if held >= L:
                        raise V(impl, 'body-read-beyond-bound',
                                'asgi-receive-until-no-more-body|no-content-length',
                                'receive() call #%d for more body with %d bytes already held, '
                                'limit %d' % (k + 1, held, L), rep)
            if size > L and msgs():
                raise V(impl, 'oversize-body-reached-handler', trig,
                        'undeclared body of %d > limit %d but message events %r' % (
                            size, L, [str(m)[:20] for m in msgs()]), rep)
        elif carrier == 'post':
            size = case['size']
            body = ascii_packet(size).encode() if size >= 1 else b''
            dec = {'equal': size, 'smaller': max(0, size - 1), 'larger': size + 3,
                   'over-limit': L + 1, 'at-limit': L}[case['declared']]
            r = w.http('POST', 'transport=polling&EIO=4&sid=' + sid, body=body, declared=dec,
                       chunks=case['chunks'], headers=[('Host', 'localhost')])
            w.settle()
            trig = 'post|declared-limit=%s|%s' % (rel(dec, L), case['declared'])
            bound = min(dec, L)
            # (2) bounded reads
            if impl == 'thread':
                for n in r.reads:
                    if not isinstance(n, int) or n < 0 or n > bound:
                        raise V(impl, 'body-read-beyond-bound', 'wsgi-read',
                                'wsgi.input.read(%r) with declared %d, limit %d' % (n, dec, L), rep)
            else:
                # the first receive() is needed to learn the event type; every further one must
                # have been necessary: fewer than min(declared, limit) bytes were held before it
                for k, held in enumerate(r.pulls[1:], 1):
                    if dec > L or held >= bound:
                        raise V(impl, 'body-read-beyond-bound', 'asgi-receive-until-no-more-body',
                                'receive() call #%d for more body with %d bytes already held, '
                                'declared %d, limit %d' % (k + 1, held, dec, L), rep)
            if dec > L:
                if msgs():
                    raise V(impl, 'oversize-body-reached-handler', trig,
                            'declared %d > limit %d but message events %r' % (
                                dec, L, [str(m)[:20] for m in msgs()]), rep)
                if not r.done or r.status != 400:
                    raise V(impl, 'oversize-post-not-400', trig,
                            'declared %d > limit %d: done=%s status=%s' % (dec, L, r.done, r.status),
                            rep)
                if not disc():
                    raise V(impl, 'oversize-post-did-not-end-session', trig,
                            'declared %d > limit %d, no disconnect event' % (dec, L), rep)
            else:
                eff = body[:dec]
                if dec >= len(body) and size >= 1:
                    # whole body read: exactly one message with size-1 characters
                    if not r.done or r.status != 200:
                        raise V(impl, 'body-within-limit-refused', trig,
                                'body of %d bytes (declared %d, limit %d): done=%s status=%s' % (
                                    size, dec, L, r.done, r.status), rep)
                    want = 'a' * (size - 1)
                    if msgs() != [want]:
                        raise V(impl, 'body-within-limit-not-processed', trig,
                                'body of %d bytes: message events %r' % (
                                    size, [str(m)[:20] for m in msgs()]), rep)
                for m in msgs():
                    if isinstance(m, str) and len(m) + 1 > len(eff):
                        raise V(impl, 'handler-got-more-than-was-read', trig,
                                'message of %d chars from %d readable bytes' % (len(m), len(eff)),
                                rep)
        elif carrier == 'post-many':
            n = case['n']
            text = rm.SEP.join('4m%d' % i for i in range(n))
            form = case.get('form', 'plain')
            if form == 'd=quote' and n:
                import urllib.parse
                text = 'd=' + urllib.parse.quote(text, safe='')
            elif form == 'd=raw-separators' and n:
                text = 'd=' + text
            body = text.encode()
            r = w.http('POST', 'transport=polling&EIO=4&sid=' + sid, body=body,
                       headers=[('Host', 'localhost')])
            w.settle()
            trig = 'post-many|%s|n=%s' % (form, '<=16' if n <= 16 else '>16')
            if P != 16:
                trig = 'post-many|%s|limit=%d|n%slimit' % (form, P, '<=' if n <= P else '>')
            got = msgs()
            if n <= P:
                if got != ['m%d' % i for i in range(n)]:
                    raise V(impl, 'packets-within-limit-not-processed', trig,
                            '%d packets posted, events %r' % (n, got), rep)
            else:
                if got:
                    raise V(impl, 'over-16-packets-processed', trig,
                            '%d packets posted (limit %d), %d dispatched' % (n, P, len(got)), rep)
            if len(got) > P:
                raise V(impl, 'over-16-packets-processed', trig, '%d dispatched' % len(got), rep)
        else:
            size = case['size']
            b64_valid = False
            if case['binary']:
                frame = b'\x07' * size
            elif case.get('b64') and size >= 1:
                # a binary packet in its text form: b + base64, `size` characters in all
                import base64
                if (size - 1) % 4 == 0:
                    raw = b'\x07' * ((size - 1) // 4 * 3)
                    frame = 'b' + base64.b64encode(raw).decode()
                    b64_valid = True
                else:
                    frame = 'b' + 'A' * (size - 1)
            else:
                frame = ascii_packet(size) if size >= 1 else ''
            if carrier in ('ws-frame', 'ws-frame-upgraded'):
                ex.do({'op': 'ws_send', 's': 0, 'sock': 'main', 'frame': rm.tag(frame)})
                if size > L:
                    if msgs():
                        raise V(impl, 'oversize-frame-reached-handler', trig,
                                'frame of %d > limit %d but events %r' % (
                                    size, L, [str(m)[:20] for m in msgs()]), rep)
                    if not disc():
                        # the session must end: give the heartbeat no time, check liveness now
                        c = w.call('transport', sid)
                        w.settle()
                        conn = s.main_ws
                        if c.exc is None and not (conn.done or conn.server_closed):
                            raise V(impl, 'oversize-frame-did-not-end-session', trig,
                                    'frame of %d > limit %d, session still up' % (size, L), rep)
                elif size >= 1 and case.get('b64') and not b64_valid:
                    pass        # malformed base64 within the limit: open cell
                elif size >= 1:
                    want = frame if case['binary'] else raw if case.get('b64') \
                        else 'a' * (size - 1)
                    if msgs() != [want]:
                        raise V(impl, 'frame-within-limit-not-processed', trig,
                                'frame of %d (limit %d): events %r' % (
                                    size, L, [str(m)[:20] for m in msgs()]), rep)
                    if disc():
                        raise V(impl, 'frame-within-limit-ended-session', trig,
                                'frame of %d (limit %d): disconnect %r' % (size, L, disc()), rep)
            elif carrier == 'upg-real-handshake':
                # the genuine handshake frames against every limit: PING probe is 6 characters
                ex.do({'op': 'upg_connect', 's': 0})
                ex.do({'op': 'ws_send', 's': 0, 'sock': 'upg', 'frame': rm.tag('2probe')})
                ex.do({'op': 'ws_send', 's': 0, 'sock': 'upg', 'frame': rm.tag('5')})
                c = w.call('transport', sid)
                w.settle()
                trig = 'upg-real-handshake|limit%s6' % ('<' if L < 6 else '>=')
                if L < 6 and c.exc is None and c.result == 'websocket':
                    raise V(impl, 'oversize-handshake-frame-completed-upgrade', trig,
                            'PING probe (6 characters) exceeds the limit %d but the upgrade '
                            'completed' % L, rep)
                if L >= 6 and (c.exc is not None or c.result != 'websocket'):
                    raise V(impl, 'upgrade-within-limit-failed', trig,
                            'handshake frames fit the limit %d but transport() = %r / %r' % (
                                L, c.result, c.exc), rep)
            else:
                ex.do({'op': 'upg_connect', 's': 0})
                if carrier == 'upg-second':
                    if L < 6:
                        return
                    ex.do({'op': 'ws_send', 's': 0, 'sock': 'upg', 'frame': rm.tag('2probe')})
                ex.do({'op': 'ws_send', 's': 0, 'sock': 'upg', 'frame': rm.tag(frame)})
                if msgs():
                    raise V(impl, 'handshake-frame-reached-handler', trig,
                            'events %r' % ([str(m)[:20] for m in msgs()],), rep)
                c = w.call('transport', sid)
                w.settle()
                if size > L or frame not in ('5',):
                    if c.exc is None and c.result == 'websocket':
                        raise V(impl, 'oversize-handshake-frame-completed-upgrade', trig,
                                'frame of %d (limit %d) on the upgrade socket, transport() says '
                                'websocket' % (size, L), rep)
        if ctx:
            sz = case.get('size')
            nt = (sz is not None and abs(sz - L) <= 2) or case.get('declared') in (
                'smaller', 'larger', 'over-limit', 'at-limit') or (case.get('n', 0) >= case.get('pkt_limit', 16) - 1 and 'n' in case)
            ctx.case(rep, nt, [impl, 'carrier-' + carrier] + (['frame-b64-text'] if case.get('b64') else []) + [
                               'size-' + rel(sz, L) if sz is not None else 'n-%d' % case['n']])
    finally:
        _payload.Payload.max_decode_packets = P0
        ex.close()


def rel(x, L):
    if x is None:
        return 'n/a'
    d = x - L
    if -2 <= d <= 2:
        return 'L%+d' % d if d else 'L'
    return 'below' if d < 0 else 'far-above'


def run_shard(ctx):
    quick = ctx.tier == 'quick'
    run_given(ctx, case_st(), lambda c: check_case(c, ctx), max_examples=350 if quick else 8000)


def replay(case, ctx):
    check_case(case)
