"""C15 - Every request and API call completes with a well-formed gateway response."""
from hypothesis import strategies as st

from vk.runner import Violation
from vk.histories import history_property, run_trace

ID = 'C15'
LEVEL = 'exploration'
RULE = ('Hypothesis draws configuration and a history mixing ordinary client traffic with raw '
        'requests from the admission cross product (any method, query pieces incl. garbage, '
        'JSONP, Origin, partial upgrade headers, malformed bodies: bad digits, bad base64, deep '
        'JSON, invalid UTF-8, empty, huge counts, bad Content-Length, mixed-case / q-valued Accept-Encoding with compression on, a 1100-character sid, echoed headers with non-latin-1 text), issued at every point of '
        'the history with and without a poll pending and with the client gone, plus '
        'send()/disconnect(sid)/disconnect() in every state including an empty table, and send() called by the message handler itself. Oracle: '
        'gateway validators (WSGI: start_response once, status line, (str,str) headers, iterable '
        'of bytes; ASGI: one response start then body; websocket scopes: only websocket events in '
        'legal order), status in {200,400,401,405}, no exception escapes a non-upgrade request, '
        'and after the horizon (3 x (ping_interval + ping_timeout)) no request and no API call is '
        'still pending. Non-trivial: a raw or malformed request, or an API call on a dead / '
        'vanished / polling session, or a request overlapping a pending poll. Distinct: hash of '
        '(impl, config, abbreviated actions, observations).')
ASSUMPTIONS = ['same kernel assumptions as C03',
               'WebSocket-upgrade requests are outside the no-exception clause (event legality only)',
               'a post-close websocket event attempted by the server and refused by the gateway '
               '(as uvicorn does) is tolerated, not judged']

CTX = [None]
OK_STATUS = {200, 400, 401, 405}


def V(ex, clause, trigger, detail):
    return Violation(ID, ex.impl, clause, trigger, detail)


def req_class(ex, r):
    role = getattr(r, 'role', 'raw')
    if role == 'raw':
        return 'raw-%s' % r.method
    return role


def session_of_call(ex, c):
    return getattr(c, 'sess', None)


def call_trigger(ex, c):
    """Classify an API call by the state it met when it was issued (root-cause class)."""
    if c.name == 'disconnect':
        view = getattr(c, 'view', {})
        # a disconnect handler that takes time opens a window in which the transport can go
        # away under the closing session: its own class of histories
        slow = '|slow-disconnect-handler' if ex.world.app_log.delay.get('disconnect') else ''
        if c.args == ():
            kinds = set(view.values())
            for k in ('polling-no-poll-pending', 'polling-poll-pending', 'websocket'):
                if k in kinds:
                    return 'disconnect-all|' + k + slow
            return 'disconnect-all|no-session' + slow
        s = session_of_call(ex, c)
        if s is None or s.ord not in view:
            return 'disconnect|dead-or-unknown-sid' + slow
        return 'disconnect|' + view[s.ord] + slow
    return c.name


def collect(ex, final):
    out = []
    w = ex.world
    for r in w.reqs:
        cls = req_class(ex, r)
        for msg in r.contract:
            out.append(V(ex, 'gateway-contract', cls + '|' + contract_class(msg),
                         '%s ?%s: %s' % (r.method, r.query, msg)))
        if isinstance(r.exc, UnicodeEncodeError) and any(
                x.get('unencodable') for s_ in ex.sessions for x in s_.app_sent):
            # (F37) the application sent text that UTF-8 cannot carry (a lone surrogate, as
            # decoded from a client's JSON string and echoed back)
            out.append(V(ex, 'exception-escaped', 'unencodable-text-queued|UnicodeEncodeError',
                         '%s ?%s: %r' % (r.method, r.query, r.exc)))
        elif r.exc is not None:
            out.append(V(ex, 'exception-escaped', cls + '|' + type(r.exc).__name__,
                         '%s ?%s (body %r): %r' % (r.method, r.query, (r.body or b'')[:30], r.exc)))
        if r.done and r.exc is None and r.status not in OK_STATUS:
            out.append(V(ex, 'unexpected-status', cls + '|%s' % r.status,
                         '%s ?%s answered %s' % (r.method, r.query, r.status)))
        if final and not r.done and ex.now - r.t_start > ex.I + ex.T + 1:
            out.append(V(ex, 'request-never-completes', cls + '|' + pending_class(ex, r),
                         '%s ?%s (body %r) started at %.3f still pending at %.3f' % (
                             r.method, r.query, (r.body or b'')[:30], r.t_start - 2 ** 20,
                             ex.now - 2 ** 20)))
    for c in w.conns:
        for msg in c.contract:
            out.append(V(ex, 'gateway-contract', 'websocket|' + contract_class(msg),
                         'ws ?%s: %s' % (c.query, msg)))
        if c.exc is not None and not c.accepted and not c.failed and \
                not names_known_session(ex, c):
            # a WebSocket request that names no session the server ever had (bad address, bad
            # version, unknown id) is refused at admission like any other request: nothing may
            # escape. Upgrade attempts on existing sessions are outside the statement.
            out.append(V(ex, 'exception-escaped', 'websocket-refused|' + type(c.exc).__name__,
                         'ws ?%s (headers %r): %r' % (c.query[:60], c.headers[:4], c.exc)))
    for c in w.calls:
        if c.name not in ('send', 'disconnect'):
            continue
        if c.done and c.exc is not None:
            out.append(V(ex, 'api-call-raised', '%s|%s' % (call_trigger(ex, c),
                                                           type(c.exc).__name__),
                         '%s%r raised %r' % (c.name, c.args, c.exc)))
        if final and not c.done and ex.now - c.t_start > ex.I + ex.T + 1 and \
                getattr(c, 'quiet', True):
            # (calls issued inside an unsettled step met a state the model cannot name: counted
            # in the evidence, not judged)
            out.append(V(ex, 'api-call-never-returns', call_trigger(ex, c),
                         '%s%r issued at %.3f has not returned by %.3f' % (
                             c.name, c.args, c.t_start - 2 ** 20, ex.now - 2 ** 20)))
    # send() called by the message handler itself (from inside a request or a reader)
    for s in ex.sessions:
        for x in s.app_sent:
            c = x['call']
            if not x.get('in_handler'):
                continue
            if c.done and c.exc is not None:
                out.append(V(ex, 'api-call-raised', 'send|from-message-handler|%s' % (
                    type(c.exc).__name__), 'send%r called by the message handler raised %r' % (
                        c.args, c.exc)))
            if final and not c.done and ex.now - c.t_start > ex.I + ex.T + 1:
                out.append(V(ex, 'api-call-never-returns', 'send|from-message-handler',
                             'send%r called by the message handler at %.3f has not returned by '
                             '%.3f' % (c.args, c.t_start - 2 ** 20, ex.now - 2 ** 20)))
    return out


def names_known_session(ex, c):
    sids = [ex.sid_of(s) for s in ex.sessions]
    return any(x is not None and ('sid=' + x) in c.query for x in sids)


def contract_class(msg):
    for k in ('start_response', 'status', 'header', 'body', 'iterable', 'state', 'unexpected',
              'never called', 'write'):
        if k in msg:
            return k.replace(' ', '-')
    return 'other'


def pending_class(ex, r):
    s = getattr(r, 'sess', None)
    if s is None:
        return 'no-session'
    return 'poll-pending' if any(not p.done and p is not r for p in s.polls) else 'no-poll-pending'


def monitor(ex, final):
    vs = collect(ex, final)
    ctx = CTX[0]
    seen = set()
    for v in vs:
        if v.signature in seen:
            continue
        seen.add(v.signature)
        if ctx is not None and v.signature in ctx.known:
            if final:
                ctx.note_known(v)
            continue
        if ctx is not None and v.signature in ctx.ignored:
            continue
        raise v


PROFILE = {
    'client_flavours': ['plain', 'plain', 'plain', 'plain', 'jsonp', 'gzip', 'jsonp+gzip'],
    'world_kw_st': st.fixed_dictionaries({
        'timer_jitter': st.sampled_from([0.0, 0.0, 2.0 ** -12]),   # timers fire slightly late
        'handler_delay': st.sampled_from([{}, {}, {}, {'disconnect': 0.25}, {'message': 0.25},
                                          {'disconnect': 0.25, 'message': 0.25}])}),
    'weights': {'open': 3, 'poll': 3, 'post': 4, 'probe_step': 2, 'ws_send': 2, 'ws_close': 1,
                'ws_fail': 1, 'pong': 1, 'app_send': 2, 'app_disconnect': 3, 'advance': 2,
                'fault': 1, 'vanish': 1, 'request': 9},
    'max_sessions': 3,
    'proxy_headers': True,       # raw requests may carry Host / X-Forwarded-Proto / -Host
    # the message handler itself calls send() before returning (sometimes echoing text that
    # holds a lone surrogate)
    'reactions': [('echo', 30), ('echo-surrogate', 8)],
    'packet_kinds': [('msg', 3), ('pong', 1), ('close', 1), ('upgrade', 1), ('bad', 3), ('noise', 1)],
    'post_modes': [('pkts', 5), ('raw', 3), ('many', 1)],
    'config': {'compression_threshold': st.sampled_from([0, 1024]),
               'transports': st.sampled_from([None, None, None, ['polling'], ['websocket']]),
               'ping_interval': st.sampled_from([1, 5, 25]),
               'ping_timeout': st.sampled_from([1, 5, 20]),
               'max_http_buffer_size': st.sampled_from([1000000, 1000000, 50]),
               'http_compression': st.sampled_from([True, True, False]),
               'cors_allowed_origins': st.sampled_from([None, None, '*'])},
    'autopong': [True, True, False],
    'autopoll': [False, True],
    'disconnect_all_pct': 3,
    'connect_outcomes': [None, None, None, None, ['ret', {'t': 'json', 'v': 'false'}], ['raise']],
}


def summarize(ex):
    cls = set()
    nt = False
    for r in ex.world.reqs:
        c = req_class(ex, r)
        if c.startswith('raw'):
            nt = True
            cls.add('raw-request')
            cls.add('raw-status-%s' % (r.status if r.done else 'pending'))
    for c in ex.world.calls:
        if c.name == 'disconnect':
            cls.add('call-' + call_trigger(ex, c))
            nt = True
    if any(s.vanished for s in ex.sessions):
        cls.add('client-vanished')
    if any(x.get('in_handler') for s in ex.sessions for x in s.app_sent):
        cls.add('send-called-by-message-handler')
    return {'requests': len(ex.world.reqs), 'calls': len(ex.world.calls)}, nt, sorted(cls)


def run_shard(ctx):
    quick = ctx.tier == 'quick'
    CTX[0] = ctx
    history_property(ctx, ID, dict(PROFILE, horizon=None), [monitor], summarize,
                     max_examples=200 if quick else 3000, steps=30 if quick else 60)


def replay(case, ctx):
    CTX[0] = ctx            # known-finding signatures are skipped, anything else is raised
    run_trace(ID, case, [monitor])
