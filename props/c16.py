"""C16 - Session table hygiene: dead ids are inert, sessions isolated, nothing leaks."""
from hypothesis import strategies as st

from vk.runner import Violation
from vk.histories import history_property, run_trace
from vk.machine import find_tag
from vk import refmodel as rm

ID = 'C16'
LEVEL = 'exploration'
RULE = ('(Also: tables of 21..64 polling sessions of which a few - at the end, the start or the middle of the table - send CLOSE or all fall silent; some sweeps later the table holds exactly the others.) '
        'Hypothesis draws configuration and long histories with up to 5 (and a second profile with up to 12) sessions: accepted and '
        'rejected opens, closes by every cause, clients vanishing at every point (mid-poll, '
        'mid-upgrade, mid-handshake), application calls send / get_session / save_session / '
        'session() / transport() with live, dead, rejected and foreign ids interleaved, the clock '
        'advancing through many monitor sweeps. Oracle: a model dict of live sessions and their '
        'saved user data - send() to a dead id returns silently and is delivered nowhere; the '
        'session calls raise KeyError for dead ids and agree with the model for live ones (data '
        'saved under one sid never shows under another and is gone after disconnect); with '
        'monitoring on, after drain the server table holds exactly the live sessions of the model. '
        'Non-trivial: >=3 sessions with >=1 vanished client and >=1 API call on a dead id. '
        'Distinct: hash of (impl, config, abbreviated actions, observations).')
ASSUMPTIONS = ['same kernel assumptions as C03',
               'server.sockets (anchored state) is read, never written, for the final table check']


def V(ex, clause, trigger, detail):
    return Violation(ID, ex.impl, clause, trigger, detail)


def ended(ex, s):
    return any(e == 'disconnect' for _, e, _ in ex.events_for(s))


def state_of(ex, s):
    if ex.sid_of(s) is None:
        return 'unopened'
    if not s.expect_accept:
        return 'rejected'
    evs = ex.events_for(s)
    if not any(e == 'connect' for _, e, _ in evs):
        return 'unopened'
    return 'ended' if ended(ex, s) else 'live'


def monitor(ex, final):
    model = getattr(ex, '_c16_model', None)
    if model is None:
        model = ex._c16_model = {'data': {}, 'seen_calls': 0, 'dead_tags': set()}
    # 1. API calls agree with the model (each judged once, when it has completed)
    calls = ex.world.calls
    for c in calls[model['seen_calls']:]:
        if not c.done and c.name not in ('disconnect',):
            # a session call or send that has not returned at a settled point
            if getattr(c, 'judge', True) and ex._quiet_now and c.name in (
                    'get_session', 'save_session', 'session', 'transport', 'send'):
                raise V(ex, 'api-call-did-not-return', c.name, '%s%r still pending' % (
                    c.name, c.args))
            break
        model['seen_calls'] += 1
        if c.name in ('get_session', 'save_session', 'session', 'transport'):
            judge_session_call(ex, model, c)
        elif c.name == 'send':
            st_ = getattr(c, 'target_state', None)
            if c.exc is not None:
                raise V(ex, 'send-raised', str(st_) + '|' + type(c.exc).__name__,
                        'send%r raised %r' % (c.args[:1], c.exc))
    # 1b. disconnect() with an id that names no session touches no session
    if not final:
        for c in calls:
            if getattr(c, 'foreign_sid', False) and c.step == len(ex.actions) and c.quiet and \
                    c.settled:
                al = ex.world.app_log
                hit = [(x, a) for (t, e, x, a), stp in zip(al.events, al.steps)
                       if e == 'disconnect' and stp == c.step]
                if hit:
                    raise V(ex, 'call-with-dead-id-touched-session',
                            'disconnect|%r' % (c.args[0],),
                            'disconnect(%r) names no session, yet %d session(s) got a disconnect '
                            'event (%r)' % (c.args[0], len(hit), hit[0][1]))
    # 2. nothing sent to a dead id is ever delivered anywhere
    dead = {}
    for x in ex.dead_sends:
        dead[x['tag']] = 'unknown-sid'
    for s in ex.sessions:
        for x in s.app_sent:
            if x.get('target_state') in ('ended', 'rejected'):
                dead[x['tag']] = x['target_state']
    if dead:
        for s in ex.sessions:
            for (t, via, pt, payload, where) in s.received:
                if pt == 4:
                    tag = find_tag(payload)
                    if tag in dead:
                        raise V(ex, 'message-for-dead-id-delivered', dead[tag],
                                'send() to a %s id: %s was delivered to session %d' % (
                                    dead[tag], tag, s.ord))
    # 3. the table after drain
    if final and ex.config.get('monitor_clients', True):
        table = set(ex.world.table())
        want = set()
        for s in ex.sessions:
            stt = state_of(ex, s)
            sid = ex.sid_of(s)
            if stt == 'live':
                want.add(sid)
                if sid not in table:
                    raise V(ex, 'live-session-missing-from-table', how_opened(s),
                            'session %d is live (no disconnect event) but not in the table' % s.ord)
            elif stt in ('ended', 'rejected') and sid in table:
                raise V(ex, 'dead-session-left-in-table', stt + '|' + end_class(ex, s),
                        'session %d (%s) is still in the server table %.1fs after the history' % (
                            s.ord, stt, ex.now - ex.drained_at))
        for s in ex.sessions:
            if s.vanished and state_of(ex, s) == 'live' and \
                    ex.now - s.t_vanished > 2 * ex.I + 4 * ex.T:
                raise V(ex, 'vanished-client-left-in-table', how_opened(s) + '|' + (
                    'mid-upgrade' if any(not a.get('promoted') and not a['conn'].done
                                         for a in s.upg_attempts) else 'plain'),
                        'session %d: client went away at %.3f, %.1fs later the session is still '
                        'live and in the table' % (s.ord, s.t_vanished - 2 ** 20,
                                                   ex.now - s.t_vanished))
        extra = table - set(ex.sid_of(s) for s in ex.sessions)
        if extra:
            raise V(ex, 'unknown-session-in-table', str(len(extra)),
                    'table holds ids nobody opened: %r' % sorted(extra))
    if final:
        # the public API agrees: every ended / rejected id is dead
        for s in ex.sessions:
            stt = state_of(ex, s)
            if stt in ('ended', 'rejected'):
                c = ex.world.call('transport', ex.sid_of(s))
                ex.world.settle()
                if not isinstance(c.exc, KeyError):
                    raise V(ex, 'dead-id-still-addressable', stt,
                            'transport() of %s session %d: result %r exc %r' % (
                                stt, s.ord, c.result, c.exc))


def how_opened(s):
    return s.kind + ('+upgraded' if s.main_ws is not None and s.kind == 'polling' else '')


def end_class(ex, s):
    if s.vanished:
        return 'vanished'
    r = [a for _, e, a in ex.events_for(s) if e == 'disconnect']
    return str(r[0]) if r else 'none'


def judge_session_call(ex, model, c):
    a = getattr(c, 'action', None)
    s = getattr(c, 'sess', None)
    explicit_sid = a.get('sid') if a else None
    stt = 'foreign' if explicit_sid is not None or s is None else getattr(c, 'target_state', None)
    name = c.name
    if stt in ('foreign', 'ended', 'rejected', 'unopened'):
        if not isinstance(c.exc, KeyError):
            raise V(ex, 'dead-id-call-did-not-raise-keyerror', '%s|%s' % (name, stt),
                    '%s on a %s id: result %r exc %r' % (name, stt, c.result, c.exc))
        return
    if stt == 'live' and not getattr(c, 'judge', True):
        stt = None          # runs together with later calls of the same unsettled step
    if stt is None:
        # issued while the world was not quiet: the state it met is unknown; a successful write
        # still counts for the model
        if c.exc is None and s is not None and name in ('save_session', 'session'):
            model['data'][s.ord] = None     # unknown until the next write at a quiet point
        return
    if stt != 'live':
        return
    if c.exc is not None:
        if ended(ex, s):
            return          # ended meanwhile (unsettled step)
        raise V(ex, 'live-id-call-raised', '%s|%s' % (name, type(c.exc).__name__),
                '%s on live session %d raised %r' % (name, s.ord, c.exc))
    data = model['data'].setdefault(s.ord, {})
    if name == 'transport':
        return
    if data is None:
        if name == 'save_session':
            model['data'][s.ord] = {a.get('key', 'k'): a.get('val')}
        return
    if name == 'get_session':
        if c.result != data:
            raise V(ex, 'session-data-wrong', 'get_session|' + leak_class(model, s, c.result),
                    'get_session of session %d returned %r, model %r' % (s.ord, c.result, data))
    elif name == 'save_session':
        model['data'][s.ord] = {a.get('key', 'k'): a.get('val')}
    elif name == 'session':
        if c.result != data:
            raise V(ex, 'session-data-wrong', 'session()|' + leak_class(model, s, c.result),
                    'session() of session %d yielded %r, model %r' % (s.ord, c.result, data))
        if a.get('key') is not None:
            data = dict(data)
            data[a['key']] = a.get('val')
            model['data'][s.ord] = data


def leak_class(model, s, got):
    for o, d in model['data'].items():
        if o != s.ord and d and got == d:
            return 'other-sessions-data'
    return 'own-data-lost' if not got else 'other'


PROFILE = {
    'vanish_at_accept_pct': 15,      # direct WebSocket opens whose peer is gone at the handshake
    'client_flavours': ['plain', 'plain', 'plain', 'plain', 'jsonp', 'gzip', 'jsonp+gzip'],
    'world_kw_st': st.fixed_dictionaries({
        'timer_jitter': st.sampled_from([0.0, 0.0, 2.0 ** -12]),   # timers fire slightly late
        'handler_delay': st.sampled_from([{}, {}, {}, {'disconnect': 0.25}, {'message': 0.25},
                                          {'disconnect': 0.25, 'message': 0.25}])}),
    'weights': {'open': 5, 'poll': 3, 'post': 2, 'probe_step': 3, 'ws_send': 1, 'ws_close': 2,
                'ws_fail': 1, 'pong': 1, 'app_send': 4, 'app_disconnect': 2, 'advance': 5,
                'api': 9, 'vanish': 3, 'fault': 1},
    'max_sessions': 5,
    'disconnect_dead_sid_pct': 25,   # disconnect('') / (0) / (unknown id): names no session
    'reactions': [('bye', 10), ('echo', 10)],    # message handlers that disconnect / reply themselves
    'packet_kinds': [('msg', 3), ('pong', 1), ('close', 2), ('bad', 1)],
    'post_modes': [('pkts', 6), ('raw', 1)],
    'config': {'http_compression': st.sampled_from([True, False]),
               'compression_threshold': st.sampled_from([0, 1024]),
               'transports': st.sampled_from([None, None, None, ['polling'], ['websocket']]),
               'ping_interval': st.sampled_from([1, 2.5, 5]),
               'ping_timeout': st.sampled_from([1, 2.5, 5]),
               'monitor_clients': st.sampled_from([True, True, True, False])},
    'autopong': [True, True, False],
    'autopoll': [False, True],
    'connect_outcomes': [None, None, None, None, None, None, None, ['ret', rm.tag(False)], ['ret', {'t': 'unjson'}],
                         ['raise'], ['ret', rm.tag('no')]],
    'advance_modes': [('grid', 2), ('deadline', 2), ('long', 3)],
    'horizon': (3, 6),
    'disconnect_all_pct': 1,     # disconnect() of everybody (a tenth of the disconnect calls)
}


def summarize(ex):
    cls = set()
    n_dead_calls = 0
    for c in ex.world.calls:
        ts = getattr(c, 'target_state', None)
        if c.name in ('get_session', 'save_session', 'session', 'transport', 'send') and \
                ts in ('ended', 'rejected', 'unopened') or \
                (getattr(c, 'action', None) or {}).get('sid'):
            n_dead_calls += 1
        if c.name in ('get_session', 'save_session', 'session', 'transport'):
            cls.add('api-%s-on-%s' % (c.name, ts))
    vanished = sum(1 for s in ex.sessions if s.vanished)
    if vanished:
        cls.add('vanished-client')
    for s in ex.sessions:
        cls.add('final-' + state_of(ex, s))
    nt = len(ex.sessions) >= 3 and vanished >= 1 and n_dead_calls >= 1
    return {'sessions': len(ex.sessions), 'dead_calls': n_dead_calls,
            'vanished': vanished}, nt, sorted(cls)


# -- big tables: many sessions, the ones that end sit anywhere in the table --------------------
big_case = st.fixed_dictionaries({
    'big_table': st.just(True),
    'impl': st.sampled_from(['thread', 'async']),
    'T': st.sampled_from([0.5, 1]),
    'n': st.sampled_from([21, 35, 41, 47, 64]),
    'ending': st.lists(st.sampled_from(['last', 'last', 'last-1', 'last-2', 'first', 'middle']),
                       min_size=1, max_size=3, unique=True),
    'how': st.sampled_from(['close', 'close', 'vanish-silent']),
})


def check_big_table(case, ctx=None):
    """n polling sessions; a few of them end (CLOSE packet) or are simply never heard of again;
    a few monitor sweeps later the table holds exactly the others."""
    from vk.machine import Exec
    T, n = case['T'], case['n']
    I = 60 if case['how'] == 'close' else T
    ex = Exec(case['impl'], {'ping_interval': I, 'ping_timeout': T, 'monitor_clients': True,
                             'http_compression': False})
    rep = dict(case)
    try:
        for _ in range(n):
            ex.do({'op': 'open', 'transport': 'polling', 'autopong': False, 'autopoll': False})
        idx = sorted(set({'last': n - 1, 'last-1': n - 2, 'last-2': n - 3, 'first': 0,
                          'middle': n // 2}[k] for k in case['ending']))
        if case['how'] == 'close':
            for i in idx:
                ex.do({'op': 'post', 's': i, 'pkts': [[1, rm.tag(None)]]})
            ex.do({'op': 'advance', 'dt': 4 * T + 0.25})
            gone = set(idx)
        else:
            # nobody answers the PING sent after I: every session is dead I + 3T later
            ex.do({'op': 'advance', 'dt': I + 3 * T + 2 * T + 0.25})
            gone = set(range(n))
        table = set(ex.world.table())
        left = [s.ord for s in ex.sessions if s.ord in gone and ex.sid_of(s) in table]
        lost = [s.ord for s in ex.sessions if s.ord not in gone and ex.sid_of(s) not in table]
        if left:
            raise V(ex, 'dead-session-left-in-table',
                    '%s|big-table|%s' % ('ended' if case['how'] == 'close' else 'silent',
                                         'tail' if max(left) >= n - 3 else 'elsewhere'),
                    '%d sessions, those at positions %s %s; %s later the table still holds %s' % (
                        n, idx if case['how'] == 'close' else 'all',
                        'sent CLOSE' if case['how'] == 'close' else 'never answered a PING',
                        '4T' if case['how'] == 'close' else 'I + 5T', left[:8]))
        if lost:
            raise V(ex, 'live-session-missing-from-table', 'polling|big-table',
                    'sessions %s never ended but are not in the table' % lost[:8])
        if ctx:
            ctx.case(rep, True, ['big-table', ex.impl, 'n=%d' % n, 'how-' + case['how']])
    except Violation as v:
        v.case = rep
        raise
    finally:
        ex.close()


def run_shard(ctx):
    quick = ctx.tier == 'quick'
    from vk.runner import run_given
    run_given(ctx, big_case, lambda c: check_big_table(c, ctx), max_examples=3 if quick else 40)
    history_property(ctx, ID, PROFILE, [monitor], summarize,
                     max_examples=200 if quick else 3000, steps=40 if quick else 80)
    # long runs with many sessions
    w = dict(PROFILE['weights'], open=9, vanish=4, advance=6)
    history_property(ctx, ID, dict(PROFILE, weights=w, max_sessions=12), [monitor], summarize,
                     max_examples=15 if quick else 300, steps=120 if quick else 200)


def replay(case, ctx):
    if case.get('big_table'):
        return check_big_table(case)
    run_trace(ID, case, [monitor])
