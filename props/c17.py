"""C17 - Session ids are unique, URL-safe and unguessable."""
import re
import types
import zlib

from hypothesis import strategies as st

from vk.runner import Violation, run_given, HarnessError

ID = 'C17'
LEVEL = 'exploration'
RULE = ('A recorder replaces the random source seen by the id generator (secrets.* / os.urandom) '
        'and returns Hypothesis-chosen bytes (constant, repeating, arbitrary). Generated cases: '
        '(counter start anywhere in 0..2^24-1 including just before the wrap, source bytes, two '
        'offsets a<b<2^24): format [A-Za-z0-9_-]{20}; id(c+a,r) != id(c+b,r) (pair law); per issue '
        '>= 12 bytes requested from the CSPRNG and >= 96 single-bit flips of the returned bytes '
        'each change the id; windows of 2^12 (quick) consecutive issues across the wrap - and shorter ones with a shutdown() call between two issues - are '
        'pairwise distinct; thorough: the full period of 2^24 consecutive issues under a constant '
        'source, from two starts, is pairwise distinct (exhaustive, each shard holds one hash '
        'bucket of all ids); histories of 2..9 open requests (polling / WebSocket, accepted / '
        'refused by False, text or an exception, settled or overlapping) on real servers under a '
        'constant source: every id handed to the connect handler is distinct. Non-trivial: window crossing the wrap, or constant/repeating source, '
        'or offsets more than 2^16 apart. Distinct: hash of the case.')
ASSUMPTIONS = ['the issue counter is reachable as server.sequence_number (anchored state) so that a '
               'window can start at a chosen value; if it is not, the check exits 2',
               'unpredictability itself is not testable: provenance and use of 96 random bits is']
IMPL = 'base'
FMT = re.compile(r'^[A-Za-z0-9_-]{20}$')
PERIOD = 1 << 24


def V(clause, trigger, detail, case):
    return Violation(ID, IMPL, clause, trigger, detail, case)


class Source:
    """Fake `secrets` / `os` as seen by engineio.base_server."""

    def __init__(self):
        self.mode = ('const', b'\x00' * 64)
        self.requested = 0
        self.calls = 0
        self.last = b''
        self.flip = None
        self.yields = False         # the random source is a system call: a switching point

    def _bytes(self, n):
        if self.mode[0] == 'fail':
            raise self.mode[1]('the entropy source is not available (scripted)')
        if self.yields:
            from vk import sched as vsched
            vsched.vsleep(2.0 ** -11)   # other requests' threads run while this one waits
        self.calls += 1
        self.requested += n
        kind, val = self.mode
        if kind == 'const':
            out = (val * (n // max(1, len(val)) + 1))[:n]
        else:
            out = val(self.calls, n)
        if self.flip is not None and self.flip < 8 * n:
            b = bytearray(out)
            b[self.flip // 8] ^= 1 << (self.flip % 8)
            out = bytes(b)
        self.last = out
        return out

    # secrets API
    def token_bytes(self, n=32):
        return self._bytes(n)

    def token_hex(self, n=32):
        return self._bytes(n).hex()

    def token_urlsafe(self, n=32):
        import base64
        return base64.urlsafe_b64encode(self._bytes(n)).rstrip(b'=').decode()

    def randbits(self, k):
        n = (k + 7) // 8
        return int.from_bytes(self._bytes(n), 'big') >> (8 * n - k)

    def randbelow(self, n):
        k = max(1, n.bit_length())
        return self.randbits(k + 64) % n

    def choice(self, seq):
        return seq[self.randbelow(len(seq))]

    # os API
    def urandom(self, n):
        return self._bytes(n)


_state = {}


def setup():
    if _state:
        return _state
    import engineio
    import engineio.base_server as bs
    src = Source()
    fake_secrets = types.SimpleNamespace(
        token_bytes=src.token_bytes, token_hex=src.token_hex, token_urlsafe=src.token_urlsafe,
        randbits=src.randbits, randbelow=src.randbelow, choice=src.choice,
        SystemRandom=None, compare_digest=None)
    if hasattr(bs, 'secrets'):
        bs.secrets = fake_secrets
    if hasattr(bs, 'os'):
        import os as real_os
        fake_os = types.ModuleType('os')
        fake_os.__dict__.update(real_os.__dict__)
        fake_os.urandom = src.urandom
        bs.os = fake_os
    servers = [engineio.Server(async_mode='threading'), engineio.AsyncServer(async_mode='asgi')]
    for s in servers:
        if not isinstance(getattr(s, 'sequence_number', None), int):
            raise HarnessError('server.sequence_number is not an int attribute any more')
    _state.update(src=src, servers=servers, fake_secrets=fake_secrets)
    return _state


# -- ids issued through real open requests (accepted and refused connections) -------------------
open_case = st.fixed_dictionaries({
    'impl': st.sampled_from(['thread', 'async']),
    'start': st.deferred(lambda: starts),
    'source': st.deferred(lambda: src_bytes),
    'opens': st.lists(st.tuples(st.sampled_from(['polling', 'polling', 'websocket']),
                                st.sampled_from(['accept', 'accept', 'false', 'raise', 'text']),
                                st.booleans()),      # settle after this open?
                      min_size=2, max_size=9),
    # threaded server: the thread waiting for the random source gives way to other requests
    'slow_source': st.booleans(),
})


def check_opens(case, ctx=None):
    """Every id the server hands to the connect handler is an issued id: all of them, accepted
    or refused, overlapping or not, are distinct and well formed - whatever the random source."""
    from vk.machine import make_world
    import engineio.base_server as bs
    st_ = setup()
    rep = {'opens_case': {'impl': case['impl'], 'start': case['start'],
                          'slow_source': bool(case.get('slow_source')),
                          'source': case['source'].hex(),
                          'opens': [list(o) for o in case['opens']]}}
    w = make_world(case['impl'], {})
    try:
        src = st_['src']
        src.mode = ('const', case['source'])
        src.flip = None
        src.yields = bool(case.get('slow_source')) and case['impl'] == 'thread'
        bs.secrets = st_['fake_secrets']
        w.server.sequence_number = case['start'] & 0xffffff
        for i, (kind, outcome, settle) in enumerate(case['opens']):
            if outcome == 'raise':
                w.app_log.outcome_by_ord[i] = ('raise',)
            elif outcome == 'false':
                w.app_log.outcome_by_ord[i] = ('ret', False)
            elif outcome == 'text':
                w.app_log.outcome_by_ord[i] = ('ret', 'no')
            hdrs = [('X-Verif-Open', str(i)), ('Host', 'localhost')]
            if kind == 'polling':
                w.http('GET', 'transport=polling&EIO=4', headers=hdrs)
            else:
                w.ws_open('transport=websocket&EIO=4', headers=hdrs)
            if settle:
                w.settle()
        w.settle()
        if src.yields:
            w.advance(2.0 ** -8)
            w.settle()
        ids = [e[2] for e in w.app_log.events if e[1] == 'connect']
        for x in ids:
            if not isinstance(x, str) or not FMT.match(x):
                raise V('id-format', 'open', 'id %r handed to the connect handler' % (x,), rep)
        if len(set(ids)) != len(ids):
            dup = sorted(set(x for x in ids if ids.count(x) > 1))
            refused = [o[1] != 'accept' for o in case['opens']]
            raise V('duplicate-id-across-opens',
                    'after-refusal' if any(refused) else 'all-accepted',
                    'ids handed to the connect handler %r: %r issued more than once' % (ids, dup),
                    rep)
        if ctx:
            nref = sum(1 for o in case['opens'] if o[1] != 'accept')
            ctx.case(rep, nref > 0 and len(ids) >= 2,
                     ['issued-through-opens', 'refusals=%d' % min(nref, 3),
                      'overlapping-opens' if not all(o[2] for o in case['opens']) else 'sequential']
                     + (['random-source-yields'] if src.yields else []))
    finally:
        st_['src'].yields = False
        w.teardown()
        bs.secrets = st_['fake_secrets']


def issue(server, src, counter, mode, flip=None):
    src.mode = mode
    src.flip = flip
    src.calls = 0
    src.requested = 0
    server.sequence_number = counter & 0xffffff
    return server.generate_id()


src_bytes = st.one_of(
    st.just(b'\x00' * 16), st.just(b'\xff' * 16), st.just(b'\xfb\xef\xbe' * 6),
    st.binary(min_size=16, max_size=16),
    st.binary(min_size=1, max_size=3).map(lambda b: (b * 16)[:16]))
starts = st.one_of(st.integers(0, PERIOD - 1), st.sampled_from([0, 1, PERIOD - 1, PERIOD - 2,
                                                                 PERIOD - 4096, 65535, 65536]))
pair_case = st.tuples(st.integers(0, 1), starts, src_bytes,
                      st.integers(0, PERIOD - 2), st.integers(1, PERIOD - 1))


def check_pair(case, ctx=None):
    which, c, r, a, d = case
    stt = setup()
    server, src = stt['servers'][which], stt['src']
    b = a + d
    if b >= PERIOD:
        b = PERIOD - 1
        if a >= b:
            a = b - 1
    rep = {'server': which, 'start': c, 'source': r.hex(), 'a': a, 'b': b}
    mode = ('const', r)
    ida = issue(server, src, c + a, mode)
    calls, req = src.calls, src.requested
    idb = issue(server, src, c + b, mode)
    for x in (ida, idb):
        if not isinstance(x, str) or not FMT.match(x):
            raise V('bad-format', 'len=%s' % (len(x) if isinstance(x, str) else type(x).__name__),
                    'issued id %r is not 20 characters of [A-Za-z0-9_-]' % (x,), rep)
    if ida == idb:
        raise V('duplicate-within-period', 'offset-distance=2^%d' % max(0, (b - a).bit_length() - 1),
                'ids issued %d apart (inside one 2^24 window) are both %r' % (b - a, ida), rep)
    if calls == 0 or req < 12:
        raise V('id-not-from-csprng', 'bytes-requested=%d' % req,
                'one issue requested %d bytes from the cryptographic source in %d calls' % (
                    req, calls), rep)
    # every one of (at least) 96 returned bits reaches the id
    nbits = 8 * req
    changed = 0
    for bit in range(nbits):
        if issue(server, src, c + a, mode, flip=bit) != ida:
            changed += 1
    if changed < 96:
        raise V('random-bits-not-embedded', 'effective-bits=%d' % changed,
                'only %d of the %d random bits requested influence the id' % (changed, nbits), rep)
    # "whatever the random source returns": two issues inside one window differ even when the
    # source answers them differently. Neighbouring counter values under the same output ...
    base = (c + a) & 0xffffff
    near = {}
    for j in range(24):
        near[issue(server, src, base ^ (1 << j), mode)] = base ^ (1 << j)
    for dlt in (1, 2, 3, 255, 256, 65536):
        near[issue(server, src, base + dlt, mode)] = (base + dlt) & 0xffffff
        near[issue(server, src, base - dlt, mode)] = (base - dlt) & 0xffffff
    # ... against this counter value under every one-bit variation of the output
    for bit in range(nbits):
        x = issue(server, src, base, mode, flip=bit)
        if x in near and near[x] != base:
            raise V('duplicate-under-varying-source', 'one-bit',
                    'counter %d with source bit %d flipped and counter %d with the plain source '
                    'both give %r' % (base, bit, near[x], x), rep)
    # the counter after an issue moved on by one (mod 2^24)
    if ctx:
        nt = (c + a) // PERIOD != (c + b) // PERIOD or len(set(r)) <= 3 or (b - a) > 65536
        cls = ['pair']
        if (c + a) // PERIOD != (c + b) // PERIOD:
            cls.append('pair-across-wrap')
        if len(set(r)) == 1:
            cls.append('constant-source')
        ctx.case(rep, nt, cls)


def check_step(which, c, r, ctx=None):
    """Two consecutive issues starting at counter c are the ids of counters c and c+1 mod 2^24
    (so a window of 2^24 consecutive issues visits every counter value once)."""
    stt = setup()
    server, src = stt['servers'][which], stt['src']
    mode = ('const', r)
    rep = {'server': which, 'step_from': c, 'source': r.hex()}
    first = issue(server, src, c, mode)
    second = server.generate_id()
    want1 = issue(server, src, c, mode)
    want2 = issue(server, src, (c + 1) % PERIOD, mode)
    if first != want1 or second != want2:
        raise V('counter-step', 'from=2^%d-1' % (c + 1).bit_length() if (c & (c + 1)) == 0
                else 'from=other',
                'issuing twice from counter %d gave %r, %r; the ids of counters %d and %d are %r, '
                '%r' % (c, first, second, c, (c + 1) % PERIOD, want1, want2), rep)
    if ctx:
        ctx.case(rep, True, ['step', 'step-at-wrap' if c == PERIOD - 1 else 'step-inside'])


def check_failing_source(which, c, exc_name, ctx=None):
    """When the operating system's random source fails, no id is issued: an id that comes out
    anyway cannot embed 96 bits of it."""
    stt = setup()
    server, src = stt['servers'][which], stt['src']
    rep = {'server': which, 'failing_source': exc_name, 'start': c}
    exc = {'OSError': OSError, 'NotImplementedError': NotImplementedError}[exc_name]
    server.sequence_number = c & 0xffffff
    src.mode = ('fail', exc)
    src.flip = None
    try:
        try:
            x = server.generate_id()
        except (OSError, NotImplementedError):
            x = None
    finally:
        src.mode = ('const', b'\x00' * 64)
    if x is not None:
        raise V('id-without-os-entropy', exc_name,
                'the random source raised %s, yet the id %r was issued' % (exc_name, x), rep)
    if ctx:
        ctx.case(rep, True, ['random-source-fails'])


def check_window(which, start, n, r, ctx=None, bucket=None, nbuckets=1, shutdown_at=None):
    """n consecutive issues from counter `start` under constant source r: pairwise distinct -
    also when the application calls shutdown() (which stops background tasks, nothing else) in
    between: the server keeps issuing ids afterwards."""
    stt = setup()
    server, src = stt['servers'][which], stt['src']
    src.mode = ('const', r)
    src.flip = None
    server.sequence_number = start & 0xffffff
    rep = {'server': which, 'window_start': start, 'n': n, 'source': r.hex()}
    if shutdown_at is not None:
        rep['shutdown_at'] = shutdown_at
    seen = set()
    gen = server.generate_id
    crc = zlib.crc32
    for i in range(n):
        if i == shutdown_at:
            import asyncio
            res = server.shutdown()
            if asyncio.iscoroutine(res):
                lp = asyncio.new_event_loop()
                try:
                    lp.run_until_complete(res)
                finally:
                    lp.close()
        x = gen()
        if nbuckets > 1 and crc(x.encode()) % nbuckets != bucket:
            continue
        if x in seen:
            raise V('duplicate-within-period', 'window-n=2^%d' % (n.bit_length() - 1),
                    'id %r issued twice within %d consecutive issues starting at counter %d' % (
                        x, n, start), rep)
        seen.add(x)
    for x in list(seen)[:50]:
        if not FMT.match(x):
            raise V('bad-format', 'window', 'issued id %r' % x, rep)
    if ctx:
        ctx.case(rep, True, ['window-2^%d' % (n.bit_length() - 1)] + (
            ['shutdown()-between-issues'] if shutdown_at is not None else []) + [
                             'window-across-wrap' if (start % PERIOD) + n > PERIOD else 'window'])
    return len(seen)


def run_shard(ctx):
    quick = ctx.tier == 'quick'
    setup()
    run_given(ctx, pair_case, lambda c: check_pair(c, ctx), max_examples=120 if quick else 2000)
    if ctx.shard < 2:
        cs = sorted(set([(1 << k) - 1 for k in range(1, 25)] + [(1 << k) for k in range(1, 24)] +
                        [0, 255, 256, 65535, 65536, PERIOD - 2]))
        for c in cs:
            try:
                check_step(ctx.shard, c, b'\x5a' * 16, ctx)
            except Violation as v:
                if not ctx.is_known(v) and v.signature not in ctx.ignored:
                    ctx.add_violation(v)
    run_given(ctx, st.tuples(st.integers(0, 1), st.integers(0, PERIOD - 1), src_bytes),
              lambda c: check_step(c[0], c[1], c[2], ctx), max_examples=60 if quick else 1000)
    run_given(ctx, open_case, lambda c: check_opens(c, ctx), max_examples=40 if quick else 600)
    for which in (0, 1):
        for exc_name in ('OSError', 'NotImplementedError'):
            try:
                check_failing_source(which, 17 + ctx.shard, exc_name, ctx)
            except Violation as v:
                if not ctx.is_known(v) and v.signature not in ctx.ignored:
                    ctx.add_violation(v)
    # consecutive windows, several starts, both servers
    wins = [(0, 0), (0, PERIOD - 2048), (1, PERIOD - 1), (1, 65000), (0, PERIOD // 2 - 100)]
    n = 4096 if quick else 65536
    for k, (which, start) in enumerate(wins):
        if k % ctx.nshards == ctx.shard % len(wins) and ctx.shard < len(wins):
            try:
                check_window(which, start, n, bytes([ctx.shard]) * 16, ctx)
                check_window(which, start, 512, bytes([ctx.shard]) * 16, ctx,
                             shutdown_at=[3, 100, 511, 256, 1][k])
            except Violation as v:
                if not ctx.is_known(v):
                    ctx.add_violation(v)
    if not quick:
        # full period from two starts; this shard holds hash bucket `shard` of all ids
        total = 0
        for which, start in ((0, 0), (1, 12345678)):
            try:
                total += check_window(which, start, PERIOD, b'\x00' * 16, ctx,
                                      bucket=ctx.shard, nbuckets=ctx.nshards)
            except Violation as v:
                if not ctx.is_known(v):
                    ctx.add_violation(v)
        ctx.count('full-period-ids-held-by-this-shard', total)
        ctx.notes.append('full period 2^24 x 2 starts checked exhaustively (bucketed over shards)')


def replay(case, ctx):
    if 'opens_case' in case:
        oc = case['opens_case']
        return check_opens({'impl': oc['impl'], 'start': oc['start'],
                            'slow_source': oc.get('slow_source', False),
                            'source': bytes.fromhex(oc['source']),
                            'opens': [tuple(o) for o in oc['opens']]})
    if 'failing_source' in case:
        return check_failing_source(case['server'], case['start'], case['failing_source'])
    if 'step_from' in case:
        return check_step(case['server'], case['step_from'], bytes.fromhex(case['source']))
    if 'window_start' in case:
        check_window(case['server'], case['window_start'], case['n'], bytes.fromhex(case['source']),
                     shutdown_at=case.get('shutdown_at'))
    else:
        check_pair((case['server'], case['start'], bytes.fromhex(case['source']), case['a'],
                    case['b'] - case['a']))
