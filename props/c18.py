"""C18 - Threaded and asyncio servers are observationally equivalent."""
from hypothesis import strategies as st

from vk.runner import Violation, run_given
from vk.machine import Exec, Drawer, config_st, find_tag
from vk.histories import short
from vk import refmodel as rm

ID = 'C18'
LEVEL = 'exploration'
RULE = ('Hypothesis draws one configuration and one history over the union of the C03-C07 and C12 '
        'alphabets (opens with connect outcomes, polls, POST bodies of all packet types, upgrade '
        'handshake steps right and wrong, frames, closes and faults, application send / '
        'disconnect, raw requests, clock steps relative to deadlines), every step settled '
        '(deterministic scheduling); the action list is generated against the threaded server and '
        'replayed step by step against the asyncio server under the same virtual clock script. '
        'Oracle: equality of per-session event logs (kind, payload, order; reason for ends '
        'initiated by client or application), per-session delivered tagged messages and their '
        'transport, status of every request completing inside its step, transport()/liveness of '
        'every session at every step; silence-caused ends only within the heartbeat bound in '
        'both. Non-trivial: history with an upgrade attempt, an undefined packet type or two end '
        'causes. Distinct: hash of (config, abbreviated actions, observations).')
ASSUMPTIONS = ['same kernel assumptions as C03',
               'not compared: how a poll pending at session end is released, error bodies, reason '
               'and instant of silence-caused ends, cross-session order, order within a session '
               'under background handlers',
               'a session is compared only until the first moment a silence-caused end is possible']
TIME_REASONS = {'ping timeout', 'transport error', 'transport close'}


def V(clause, trigger, detail):
    return Violation(ID, 'both', clause, trigger, detail)


def norm(v):
    if isinstance(v, (bytes, bytearray)):
        return ['bytes', bytes(v).hex()]
    return v


class Obs:
    def __init__(self, ex):
        self.ex = ex
        self.steps = []          # per step: {ord: transport|'dead'}

    def snap(self):
        ex = self.ex
        out = {}
        for s in ex.sessions:
            sid = ex.sid_of(s)
            if sid is None:
                out[s.ord] = 'nosid'
                continue
            c = ex.world.call('transport', sid)
            ex.world.settle()
            out[s.ord] = c.result if c.exc is None else 'dead'
        self.steps.append((ex.now, out))


def run_world(impl, config, actions, world_kw=None):
    ex = Exec(impl, config, world_kw)
    obs = Obs(ex)
    try:
        for a in actions:
            ex.do(dict(a))
            obs.snap()
        ex.drain()
        obs.snap()
        res = extract(ex, obs)
    finally:
        ex.close()
    return res


def cutoff(ex, s):
    """First moment a silence-caused end is possible for this session."""
    # every PONG (and the OPEN) starts a PING timer; the earliest PING that no PONG answers
    # strictly inside its window decides (a PONG at the very deadline may already be too late in
    # one world; an unsolicited PONG starts a timer of its own without cancelling the others)
    pongs = sorted(s.pongs)
    due = []
    for c in [getattr(s, 't_open', 0)] + pongs:
        lo, hi = c + ex.I, c + ex.I + ex.T
        if not any(lo <= p < hi for p in pongs):
            due.append(hi)
    due += [c + ex.I + ex.T for c in getattr(s, 'pongs_unsolicited', [])]
    t = min(due) if due else getattr(s, 't_open', 0) + ex.I + ex.T
    # a read that has been waiting for I+T may time out (and end the session) at that moment;
    # with overlapping reads which of them is served first is unspecified
    # the reader of an established WebSocket gives up I+T after the last frame it was sent
    # (PONGs that travel in POST bodies do not count for it)
    for conn in (s.open_conn, s.main_ws):
        if conn is None or not conn.accepted:
            continue
        last = conn.t_start
        for e in s.client_sent:
            if e.get('via') == 'ws' and e.get('conn') is conn:
                last = max(last, e['t'])
        t = min(t, last + ex.I + ex.T)
    for r in ex.world.reqs:
        if getattr(r, 'sess', None) is s and r.method == 'GET':
            end = r.t_end if r.done else ex.now
            if end - r.t_start >= ex.I + ex.T - 1e-6:
                t = min(t, r.t_start + ex.I + ex.T)
    return t


def extract(ex, obs):
    out = {'sessions': {}, 'statuses': [], 'liveness': []}
    for s in ex.sessions:
        co = cutoff(ex, s)
        evs = []
        for t, e, a in ex.events_for(s):
            if e == 'disconnect':
                evs.append((t, 'disconnect', a))
            elif e == 'message':
                evs.append((t, 'message', norm(a)))
            else:
                evs.append((t, e, None))
        delivered = [(t, find_tag(p), 'ws' if via != 'poll' else 'poll')
                     for (t, via, pt, p, w) in s.received if pt == 4]
        out['sessions'][s.ord] = {'cutoff': co, 'events': evs, 'delivered': delivered,
                                  'accepted': s.expect_accept,
                                  'overlapping_polls': any(getattr(p, '_overlaps', 0)
                                                           for p in s.polls) or
                                  bool(getattr(s, 'pongs_unsolicited', []))}
    for r in ex.world.reqs:
        role = getattr(r, 'role', None)
        sess = getattr(r, 'sess', None)
        if role is None or not getattr(r, '_explicit', False):
            continue            # requests made by the simulated client's automation are not
                                # part of the history (PING batching may differ)
        inside = r.done and getattr(r, '_inside_step', False)
        out['statuses'].append({'role': role, 's': sess.ord if sess else None, 't': r.t_start,
                                'method': r.method, 'status': r.status if inside else None,
                                'exc': type(r.exc).__name__ if (inside and r.exc) else None,
                                'query': r.query.split('sid=')[0]})
    out['liveness'] = obs.steps
    out['actions'] = [short(a) for a in ex.actions]
    out['I'], out['T'] = ex.I, ex.T
    return out


def compare(a, b, actions):
    """a: threaded, b: asyncio."""
    TOL = 1e-6
    for o in sorted(a['sessions']):
        sa, sb = a['sessions'][o], b['sessions'].get(o)
        if sb is None:
            raise V('session-missing', 'async', 'session %d exists only in the threaded run' % o)
        co = min(sa['cutoff'], sb['cutoff']) - TOL
        ea = [(k, p) for t, k, p in sa['events'] if t < co and
              not (k == 'disconnect' and p in TIME_REASONS)]
        eb = [(k, p) for t, k, p in sb['events'] if t < co and
              not (k == 'disconnect' and p in TIME_REASONS)]
        if ea != eb:
            i = next((i for i in range(min(len(ea), len(eb))) if ea[i] != eb[i]),
                     min(len(ea), len(eb)))
            raise V('event-logs-differ', ev_class(ea, eb, i),
                    'session %d: threaded %s | asyncio %s (first difference at #%d)' % (
                        o, ea[max(0, i - 1):i + 2], eb[max(0, i - 1):i + 2], i))
        da = [(tag, via) for t, tag, via in sa['delivered'] if t < co]
        db = [(tag, via) for t, tag, via in sb['delivered'] if t < co]
        if sa.get('overlapping_polls') or sb.get('overlapping_polls'):
            # with two polls pending at once it is unspecified which of them a packet goes to
            # (and so what a later poll still finds); an unsolicited PONG starts a second PING
            # timer, and whether two PINGs of the same instant share a poll answer is
            # unspecified too: the events above are still compared
            da = db = None
        if da != db:
            raise V('delivered-messages-differ', 'order-or-transport' if sorted(map(str, da)) ==
                    sorted(map(str, db)) else 'set',
                    'session %d: threaded %s | asyncio %s' % (o, da, db))
        # silence-caused ends: within the bound in both
        for name, sx in (('threaded', sa), ('asyncio', sb)):
            pass
    # statuses
    ra = [r for r in a['statuses']]
    rb = [r for r in b['statuses']]
    for x, y in zip(ra, rb):
        if (x['role'], x['s'], x['method']) != (y['role'], y['s'], y['method']):
            break           # automation diverged (after a cutoff): stop comparing
        o = x['s']
        co = None
        if o is not None and o in a['sessions']:
            co = min(a['sessions'][o]['cutoff'], b['sessions'][o]['cutoff']) - TOL
        if co is not None and x['t'] >= co:
            continue
        if x['status'] is None or y['status'] is None:
            if x['role'] == 'poll':
                continue        # pending polls are released differently: not compared
            if x['status'] != y['status']:
                raise V('request-completion-differs', '%s|%s' % (x['role'], x['method']),
                        '%s %s ?%s: threaded status %s, asyncio status %s' % (
                            x['role'], x['method'], x['query'], x['status'], y['status']))
            continue
        if x['status'] != y['status']:
            raise V('admission-decisions-differ', '%s|%s|%s-vs-%s' % (
                x['role'], x['method'], x['status'], y['status']),
                '%s %s ?%s: threaded %s, asyncio %s' % (
                    x['role'], x['method'], x['query'], x['status'], y['status']))
    # liveness / transport at every step
    for i, ((ta, la), (tb, lb)) in enumerate(zip(a['liveness'], b['liveness'])):
        for o in la:
            if o not in lb or o not in a['sessions']:
                continue
            co = min(a['sessions'][o]['cutoff'], b['sessions'][o]['cutoff']) - TOL
            if ta >= co:
                continue
            if la[o] != lb[o]:
                act = actions[i] if i < len(actions) else 'drain'
                raise V('liveness-or-transport-differs', '%s-vs-%s|after-%s' % (
                    la[o], lb[o], str(act).split(':')[0]),
                    'after step %d (%s): session %d is %s (threaded) but %s (asyncio)' % (
                        i, act, o, la[o], lb[o]))


def ev_class(ea, eb, i):
    x = ea[i] if i < len(ea) else None
    y = eb[i] if i < len(eb) else None
    return '%s-vs-%s' % (x[0] if x else 'none', y[0] if y else 'none')


PROFILE = {
    # the same handler style is registered on both servers
    'world_kw_st': st.fixed_dictionaries({
        'legacy_disconnect': st.sampled_from([False, False, True, 'varargs']),
        # the disconnect handler itself sends a last message to the session it is told about
        'farewell': st.sampled_from([False, False, True])}),
    'client_flavours': ['plain', 'plain', 'plain', 'plain', 'jsonp', 'gzip', 'jsonp+gzip'],
    'weights': {'open': 3, 'poll': 3, 'post': 5, 'probe_step': 4, 'ws_send': 3, 'ws_close': 1,
                'ws_fail': 1, 'pong': 1, 'app_send': 4, 'app_disconnect': 2, 'advance': 3,
                'fault': 1, 'vanish': 1, 'request': 3, 'api': 1},
    'max_sessions': 3,
    'untagged_empties_pct': 4,       # MESSAGE packets with an empty / one-byte untagged payload
    'disconnect_dead_sid_pct': 10,   # disconnect('') / (0) / (unknown id)
    'packet_kinds': [('msg', 5), ('pong', 1), ('close', 1), ('upgrade', 1), ('bad', 2)],
    'post_modes': [('pkts', 8), ('raw', 2), ('many', 1)],
    'config': {'http_compression': st.sampled_from([True, False]),
               'compression_threshold': st.sampled_from([0, 1024]),
               'transports': st.sampled_from([None, None, None, ['polling'], ['websocket']]),
               'ping_interval': st.sampled_from([5, 25]),
               'ping_timeout': st.sampled_from([5, 20]),
               'max_http_buffer_size': st.sampled_from([1000000, 60, 200]),
               'async_handlers': st.just(False)},
    'autopong': [True],
    'autopoll': [True, False],
    'settle': [True],
    'wrong_step_pct': 3,
    'connect_outcomes': [None, None, None, None, ['ret', rm.tag(False)], ['raise'],
                         ['ret', rm.tag({'e': 1})]],
    'disconnect_all_pct': 0,      # steer around known finding F7 (threaded disconnect() blocks)
}


def check_history(config, actions, ctx=None, world_kw=None):
    a = run_world('thread', config, actions, world_kw)
    b = run_world('async', config, actions, world_kw)
    try:
        compare(a, b, a['actions'])
    except Violation as v:
        v.case = {'config': config, 'actions': actions}
        if world_kw:
            v.case['world_kw'] = world_kw
        raise
    if ctx:
        ops = [x['op'] for x in actions]
        types = set()
        for x in actions:
            if x['op'] == 'post' and x.get('pkts'):
                types |= set(p[0] for p in x['pkts'])
        nt = 'upg_connect' in ops or bool(types & {7, 8, 9}) or \
            sum(1 for o in ops if o in ('app_disconnect', 'ws_close', 'ws_fail', 'vanish')) >= 2
        cls = []
        if 'upg_connect' in ops:
            cls.append('has-upgrade')
        if types & {7, 8, 9}:
            cls.append('has-undefined-type')
        if 'request' in ops:
            cls.append('has-raw-request')
        n_ev = sum(len(s['events']) for s in a['sessions'].values())
        ctx.case({'config': config, 'ops': a['actions'], 'events': n_ev}, nt, cls)


def run_shard(ctx):
    quick = ctx.tier == 'quick'
    steps = 25 if quick else 50
    cfg_st = config_st(PROFILE['config'])

    def body(data):
        config = data.draw(cfg_st, label='config')
        nsteps = data.draw(st.integers(4, steps), label='nsteps')
        wkw = data.draw(PROFILE['world_kw_st'], label='world_kw')
        wkw = {k: v for k, v in wkw.items() if v}
        ex = Exec('thread', config, wkw or None)
        ex.world.pick = None
        actions = []
        try:
            dr = Drawer(data.draw, ex, dict(PROFILE, sched=False))
            for _ in range(nsteps):
                a = dr.next_action()
                a.pop('sched', None)
                if a.get('content_length') in ('-1', 'abc', ''):
                    a.pop('content_length')      # invalid Content-Length: gateway precondition
                    ctx.avoided += 1
                a['settle'] = True if a['op'] not in ('advance', 'settle') else a.get('settle', True)
                ex.do(a)
                actions.append(a)
        finally:
            ex.close()
        check_history(config, actions, ctx, wkw or None)

    run_given(ctx, st.data(), body, max_examples=250 if quick else 4000)


def replay(case, ctx):
    check_history(case['config'], case['actions'], world_kw=case.get('world_kw'))
