"""C19 - Response transformations (compression, JSONP) are lossless and well labelled."""
import gzip
import itertools
import json
import zlib

from hypothesis import strategies as st

from vk.runner import Violation, run_given
from vk import refmodel as rm
from vk.machine import make_world

ID = 'C19'
LEVEL = 'exploration'
RULE = ('(a) every string up to length 3/4 over an adversarial alphabet (quote, backslash, slash, '
        'LF, CR, U+2028, U+2029, NUL, U+001E, U+007F, b, n, u, x, 0, non-BMP) and Hypothesis-drawn '
        'longer texts / multi-packet lists are wrapped by Payload.encode(jsonp_index=i); the body '
        'is parsed as exactly one ___eio[i]("...") call with an ECMAScript string-literal '
        'evaluator and must equal the plain payload. (b) end to end on both servers: messages with '
        'such payloads (text, JSON, binary) are queued on a fresh session and read by a poll with '
        'drawn Accept-Encoding (absent, gzip, deflate, both orders, q-values, unknown tokens, '
        'spaces, case), http_compression on/off, threshold in {0, len-1, len, len+1, 1024, huge} '
        'and JSONP index, also polls that end up carrying no packet (pending while the client '
        'sends CLOSE); the declared Content-Encoding is undone (gzip/zlib), the JSONP literal '
        'evaluated, and the result must equal the reference payload; an encoding is declared only '
        'if offered, enabled and the body reached the threshold; an undeclared body is plain. '
        'Non-trivial: payload with a character needing escaping, or a compressed response, or a '
        'threshold within 1 of the body size. Distinct: hash of the case.')
ASSUMPTIONS = ['stdlib gzip/zlib are correct', 'the string-literal evaluator follows ECMAScript 2019 '
               '(raw U+2028/2029 legal); cross-checked against nodejs when present (thorough tier)',
               'q=0 offers are an open cell']
ALPHA = ['"', '\\', '/', '\n', '\r', ' ', ' ', '\x00', '\x1e', '\x7f', 'b', 'n', 'u', 'x',
         '0', '\U0001f600', "'", ')', ';', '%']


def V(impl, clause, trigger, detail, case):
    return Violation(ID, impl, clause, trigger, detail, case)


def char_class(s):
    for name, chars in (('backslash', '\\'), ('line-terminator', '\n\r'), ('ls-ps', '  '),
                        ('control', '\x00\x1e\x7f'), ('quote', '"')):
        if any(c in s for c in chars):
            return name
    return 'plain'


# -- (a) the encoder alone ---------------------------------------------------------------------
def check_direct(pkts, index, ctx=None):
    from engineio import packet, payload
    rep = {'direct': [[t, rm.tag(d)] for t, d in pkts], 'index': index}
    objs = [packet.Packet(t, data=d) for t, d in pkts]
    plain = payload.Payload(packets=objs).encode()
    objs = [packet.Packet(t, data=d) for t, d in pkts]
    try:
        body = payload.Payload(packets=objs).encode(jsonp_index=index)
    except Exception as e:      # noqa  (every packet list has a JSONP form)
        raise V('codec', 'jsonp-encoding-raised', char_class(plain) + '|' + type(e).__name__,
                'payload %r: the JSONP wrapper raised %r' % (plain[:60], e), rep)
    try:
        idx, value = rm.parse_jsonp(body)
    except rm.JsSyntaxError as e:
        raise V('codec', 'jsonp-body-not-one-call-statement', char_class(plain),
                'payload %r wrapped as %r: %s' % (plain[:60], body[:90], e), rep)
    if idx != index:
        raise V('codec', 'jsonp-index-changed', str(index), 'index %r became %r' % (index, idx), rep)
    if not rm.utf16_equal(value, plain):
        raise V('codec', 'jsonp-literal-evaluates-to-other-payload', char_class(plain),
                'payload %r wrapped as %r evaluates to %r' % (plain[:60], body[:90], value[:60]),
                rep)
    if ctx:
        ctx.case(rep, char_class(plain) != 'plain', ['direct', 'direct-' + char_class(plain)])


# -- (b) end to end ------------------------------------------------------------------------------------
def offered(header):
    out = set()
    q0 = False
    if header is None:
        return out, q0
    for part in header.split(','):
        bits = part.split(';')
        tok = bits[0].strip().lower()
        if any(b.strip().replace(' ', '').lower() in ('q=0', 'q=0.0', 'q=0.00', 'q=0.000')
               for b in bits[1:]):
            q0 = True
        if tok:
            out.add(tok)
    return out, q0


def undo(impl, req, accept, enabled, threshold, rep):
    body = req.resp_body or b''
    ce = req.header_all('Content-Encoding')
    if len(ce) > 1:
        raise V(impl, 'content-encoding-repeated', str(len(ce)), 'headers %r' % ce, rep)
    if ce:
        enc = ce[0].strip().lower()
        off, q0 = offered(accept)
        if enc not in off and not (enc == 'gzip' and 'x-gzip' in off) and '*' not in off:
            raise V(impl, 'encoding-declared-but-not-offered', enc,
                    'Content-Encoding %r, Accept-Encoding %r' % (ce[0], accept), rep)
        if not enabled:
            raise V(impl, 'encoding-declared-while-compression-disabled', enc,
                    'Content-Encoding %r with http_compression=False' % ce[0], rep)
        try:
            if enc == 'gzip':
                plain = gzip.decompress(body)
            elif enc == 'deflate':
                try:
                    plain = zlib.decompress(body)
                except zlib.error:
                    plain = zlib.decompress(body, -15)
            else:
                raise V(impl, 'unknown-encoding-declared', enc, 'Content-Encoding %r' % ce[0], rep)
        except (OSError, EOFError, zlib.error) as e:
            raise V(impl, 'body-does-not-match-declared-encoding', enc,
                    'cannot undo %s: %r' % (enc, e), rep)
        if len(plain) < threshold:
            raise V(impl, 'compressed-below-threshold', enc,
                    'body of %d bytes compressed, threshold %d' % (len(plain), threshold), rep)
        return plain, enc
    return body, None


def check_e2e(case, ctx=None):
    impl, datas, accept, enabled, thr_mode, index, variant = case[:7]
    second = case[7] if len(case) > 7 else None          # (payload, accept, index) of a 2nd poll
    rep = {'impl': impl, 'payloads': [rm.tag(d) for d in datas], 'accept_encoding': accept,
           'http_compression': enabled, 'threshold': thr_mode, 'index': index, 'variant': variant,
           'second': [rm.tag(second[0]), second[1], second[2]] if second else None}
    expected = rm.SEP.join(rm.ref_encode(4, d, True) for d in datas)
    elen = len(expected.encode('utf-8'))
    thr = {'zero': 0, 'len-1': max(0, elen - 1), 'len': elen, 'len+1': elen + 1,
           'default': 1024, 'huge': 10 ** 9}[thr_mode]
    w = make_world(impl, {'http_compression': enabled, 'compression_threshold': thr,
                          'cors_allowed_origins': None})
    try:
        q = 'transport=polling&EIO=4'
        jq = '' if index is None else '&j=%d' % index
        hdrs = [('Host', 'localhost')] + ([('Accept-Encoding', accept)] if accept is not None else [])
        if variant == 'open':
            r = w.http('GET', q + jq, headers=hdrs)
            w.settle()
        else:
            r0 = w.http('GET', q, headers=[('Host', 'localhost')])
            w.settle()
            if r0.status != 200 or r0.header('Content-Encoding'):
                body0 = r0.resp_body
                if r0.header('Content-Encoding') == 'gzip':
                    body0 = gzip.decompress(body0)
                elif r0.header('Content-Encoding') == 'deflate':
                    body0 = zlib.decompress(body0)
            else:
                body0 = r0.resp_body
            sid = json.loads(body0.decode()[1:])['sid']
            if variant == 'empty':
                # a poll that ends up carrying no packet at all: it is pending when the client
                # closes the session with a CLOSE packet in a POST
                expected = ''
                r = w.http('GET', q + '&sid=' + sid + jq, headers=hdrs)
                w.settle()
                w.http('POST', q + '&sid=' + sid, headers=[('Host', 'localhost')], body=b'1')
                w.settle()
                if not r.done:
                    if ctx:
                        ctx.case(rep, False, [impl, 'e2e-empty-poll-still-pending'])
                    return
            else:
                for d in datas:
                    w.call('send', sid, d)
                w.settle()
                r = w.http('GET', q + '&sid=' + sid + jq, headers=hdrs)
                w.settle()
        if not r.done or r.status != 200 or r.exc is not None:
            raise V(impl, 'poll-not-answered-200', 'status=%s' % r.status,
                    'request %r: done=%s status=%s exc=%r' % (r.query, r.done, r.status, r.exc), rep)
        plain, enc = undo(impl, r, accept, enabled, thr, rep)
        try:
            text = plain.decode('utf-8')
        except UnicodeDecodeError as e:
            raise V(impl, 'undeclared-body-not-plain' if enc is None else 'body-not-utf8',
                    str(enc), 'body is not UTF-8 text: %r' % e, rep)
        if index is not None:
            try:
                idx, value = rm.parse_jsonp(text)
            except rm.JsSyntaxError as e:
                raise V(impl, 'jsonp-body-not-one-call-statement', char_class(expected),
                        'body %r: %s' % (text[:100], e), rep)
            if idx != index:
                raise V(impl, 'jsonp-index-changed', str(index), 'index %r' % idx, rep)
        else:
            value = text
        if variant == 'open':
            ok = value[:1] == '0'
            try:
                info = json.loads(value[1:])
                ok = ok and info['sid'] in w.app_log.sid_ord or info['sid'] in [
                    e[2] for e in w.app_log.events]
            except Exception:
                ok = False
            if not ok:
                raise V(impl, 'open-packet-garbled', str(enc), 'decoded body %r' % value[:100], rep)
        elif not rm.utf16_equal(value, expected):
            raise V(impl, 'payload-changed-by-transformation',
                    '%s|%s|%s' % (enc, 'jsonp' if index is not None else 'plain',
                                  char_class(expected)),
                    'expected %r, client decodes %r' % (expected[:80], value[:80]), rep)
        if second is not None and variant == 'poll':
            # the same server answers another, differently shaped poll: nothing may carry over
            d2, accept2, index2 = second
            exp2 = rm.ref_encode(4, d2, True)
            w.call('send', sid, d2)
            w.settle()
            h2 = [('Host', 'localhost')] + ([('Accept-Encoding', accept2)]
                                            if accept2 is not None else [])
            r2 = w.http('GET', q + '&sid=' + sid + ('' if index2 is None else '&j=%d' % index2),
                        headers=h2)
            w.settle()
            if not r2.done or r2.status != 200 or r2.exc is not None:
                raise V(impl, 'poll-not-answered-200', 'second|status=%s' % r2.status,
                        'second poll: done=%s status=%s exc=%r' % (r2.done, r2.status, r2.exc), rep)
            plain2, enc2 = undo(impl, r2, accept2, enabled, thr, rep)
            try:
                text2 = plain2.decode('utf-8')
                value2 = rm.parse_jsonp(text2)[1] if index2 is not None else text2
            except (UnicodeDecodeError, rm.JsSyntaxError) as e:
                raise V(impl, 'second-response-garbled', '%s-then-%s' % (enc, enc2),
                        'second poll body %r: %r' % (plain2[:60], e), rep)
            if not rm.utf16_equal(value2, exp2):
                raise V(impl, 'payload-changed-by-transformation', 'second|%s-then-%s' % (enc, enc2),
                        'second poll: expected %r, client decodes %r' % (exp2[:60], value2[:60]),
                        rep)
        if ctx:
            cls = [impl, 'e2e-' + variant, 'enc-%s' % enc,
                   'jsonp' if index is not None else 'no-jsonp', 'thr-' + thr_mode]
            nt = char_class(expected) != 'plain' or enc is not None or \
                thr_mode in ('len-1', 'len', 'len+1')
            ctx.case(rep, nt, cls)
    finally:
        w.teardown()


adv_text = st.text(alphabet=st.one_of(st.sampled_from(ALPHA), st.characters(codec='utf-8')),
                   max_size=12)
payload_st = st.one_of(
    adv_text, adv_text, st.sampled_from(['</script>', '");', '\\");alert(1);("', '\\u2028', '\\',
                                         'a\\b\nc"d', '\\"', '\\\\"', 'cpu at 100%', '%s', '%%',
                                         '20%% off', '%d items', '%(x)s', '{0}', '{}']),
    st.binary(max_size=10),
    st.dictionaries(st.text(alphabet=st.sampled_from(ALPHA), max_size=3), adv_text, max_size=3),
    st.text(alphabet='ab', min_size=1000, max_size=1100))
accept_st = st.sampled_from([
    None, '', 'gzip', 'deflate', 'gzip, deflate', 'deflate, gzip', 'gzip;q=0.5, deflate;q=1.0',
    'br', 'br, gzip', 'identity', '*', ' gzip ', 'GZIP', 'gzip,deflate,br', 'deflate;q=0',
    'gzipp', 'x-gzip', 'gzip;q=0', 'compress, deflate', 'pack200-gzip', 'x-deflate', 'gzip-2',
    'br, not-deflate', 'my_gzip'])
e2e_st = st.tuples(st.sampled_from(['thread', 'async']),
                   st.lists(payload_st, min_size=1, max_size=4), accept_st, st.booleans(),
                   st.sampled_from(['zero', 'len-1', 'len', 'len+1', 'default', 'huge']),
                   st.one_of(st.none(), st.integers(0, 9999)),
                   st.sampled_from(['poll', 'poll', 'poll', 'poll', 'open', 'empty']),
                   st.one_of(st.none(), st.tuples(st.one_of(st.just('tiny'), payload_st), accept_st,
                                                  st.one_of(st.none(), st.integers(0, 99)))))
direct_st = st.tuples(st.lists(st.tuples(st.integers(0, 6), st.one_of(st.none(), adv_text)) |
                               st.tuples(st.just(4), st.binary(max_size=8)),
                               min_size=0, max_size=5), st.integers(0, 10 ** 6))


def node_crosscheck(ctx):
    """Trusted-base check of the evaluator against nodejs, when it is installed."""
    import shutil
    import subprocess
    node = shutil.which('nodejs') or shutil.which('node')
    if not node:
        ctx.notes.append('nodejs not present: evaluator not cross-checked')
        return
    lits = []
    for tup in itertools.islice(itertools.product(ALPHA[:10] + ['\\n', '\\u0041', '\\x41', 'a'],
                                                  repeat=2), 0, 200):
        lits.append(json.dumps(''.join(tup)))
        lits.append('"' + ''.join(tup).replace('"', '\\"') + '"')
    prog = 'const a=%s;const o=[];for(const s of a){try{o.push([1,eval(s)])}catch(e){o.push([0,""])}}' \
           'process.stdout.write(JSON.stringify(o))' % json.dumps(lits)
    try:
        out = subprocess.run([node, '-e', prog], capture_output=True, timeout=60).stdout
        res = json.loads(out)
    except Exception as e:      # noqa
        ctx.notes.append('nodejs cross-check could not run: %r' % (e,))
        return
    bad = 0
    for lit, (ok, val) in zip(lits, res):
        try:
            mine, end = rm.js_string_literal(lit, 0)
            mok = end == len(lit)
        except rm.JsSyntaxError:
            mine, mok = '', False
        if bool(ok) != mok or (ok and not rm.utf16_equal(mine, val)):
            bad += 1
    ctx.count('evaluator-vs-nodejs-literals', len(lits))
    ctx.count('evaluator-vs-nodejs-disagreements', bad)
    if bad:
        raise RuntimeError('string-literal evaluator disagrees with nodejs on %d literals' % bad)


def run_shard(ctx):
    quick = ctx.tier == 'quick'
    L = 3 if quick else 4
    idx = 0
    for n in range(0, L + 1):
        for tup in itertools.product(ALPHA[:16], repeat=n):
            idx += 1
            if idx % ctx.nshards != ctx.shard:
                continue
            try:
                check_direct([(4, ''.join(tup))], 7, ctx)
            except Violation as v:
                if ctx.is_known(v):
                    ctx.note_known(v)
                elif v.signature not in ctx.ignored:
                    ctx.add_violation(v)
    if ctx.shard == 0:
        node_crosscheck(ctx)
    run_given(ctx, direct_st, lambda c: check_direct(c[0], c[1], ctx),
              max_examples=300 if quick else 10000)
    run_given(ctx, e2e_st, lambda c: check_e2e(c, ctx), max_examples=250 if quick else 6000)


def replay(case, ctx):
    if 'direct' in case:
        check_direct([(t, rm.untag(d)) for t, d in case['direct']], case['index'])
    else:
        sec = case.get('second')
        check_e2e((case['impl'], [rm.untag(d) for d in case['payloads']], case['accept_encoding'],
                   case['http_compression'], case['threshold'], case['index'], case['variant'],
                   (rm.untag(sec[0]), sec[1], sec[2]) if sec else None))
