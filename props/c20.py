"""C20 - Gateway middleware routes by path only and static files stay inside their roots."""
import asyncio
import atexit
import itertools
import os
import shutil
import tempfile

from hypothesis import strategies as st

from vk.runner import Violation, run_given

ID = 'C20'
LEVEL = 'exploration'
RULE = ('A temporary tree (mapped directory with nested files, a mapped single file, a secret file '
        'beside the mapped root, every file with unique content) is served through WSGIApp and '
        'ASGIApp wrapping a stub engine and an optional stub application, under a catalogue of '
        'static mappings (directory with/without trailing slashes, dict form with explicit content '
        'type, single files, default-file override) and endpoint settings. Paths: every sequence '
        'of up to 3 (quick) / 4 (thorough) segments from {file and directory names, ., .., empty, '
        '%2e%2e, the endpoint, a name sharing the endpoint prefix, the secret} exhaustively for the '
        'main configurations, Hypothesis-drawn longer ones for all, and sequences of 2-5 requests to one application object (each judged like a request to a fresh one). Oracle by content: a body equal '
        'to a file content identifies the file served - it must be a mapped file or lie beneath a '
        'mapped directory, never the secret; its content type comes from the mapping or the '
        'extension table; the engine is reached iff the path starts with the endpoint; for clean '
        'paths the whole routing decision (engine / that static file / wrapped app / 404) must '
        'equal the reference router. ASGI lifespan event sequences with sync/async/raising/absent '
        'callbacks, with and without a wrapped app, must be answered per protocol or delegated. '
        'Non-trivial: a path with ., .., empty or encoded segments, or naming the endpoint prefix, '
        'or a lifespan case with a raising callback. Distinct: hash of (app, config, path).')
ASSUMPTIONS = ['the file system of the sandbox (tempfile tree outside /repo and /verif)',
               'the endpoint without its trailing slash (/engine.io) is an open cell (ASGIApp '
               'routes it, WSGIApp does not)']

EXT = {'css': 'text/css', 'gif': 'image/gif', 'html': 'text/html', 'jpg': 'image/jpeg',
       'js': 'application/javascript', 'json': 'application/json', 'png': 'image/png',
       'txt': 'text/plain'}
_tree = {}


def V(impl, clause, trigger, detail, case):
    return Violation(ID, impl, clause, trigger, detail, case)


def tree():
    if _tree:
        return _tree
    root = tempfile.mkdtemp(prefix='verif-c20-')
    atexit.register(shutil.rmtree, root, True)
    files = {
        'public/index.html': b'<public index>', 'public/a.txt': b'file a', 'public/noext': b'noext',
        'public/sub/b.css': b'b css', 'public/sub/index.html': b'<sub index>',
        'public/sub/custom.html': b'<sub custom>', 'public/custom.html': b'<public custom>',
        'public/sub/deep/c.js': b'c js', 'secret.txt': b'TOP SECRET', 'single.html': b'<single>',
        'other/x.txt': b'other x', 'public/engine.io/inside.txt': b'inside endpoint dir',
    }
    for rel, content in files.items():
        p = os.path.join(root, rel)
        os.makedirs(os.path.dirname(p), exist_ok=True)
        with open(p, 'wb') as f:
            f.write(content)
    _tree.update(root=root, files=files,
                 by_content={c: os.path.realpath(os.path.join(root, r)) for r, c in files.items()})
    return _tree


def configs():
    r = tree()['root']
    pub = os.path.join(r, 'public')
    single = os.path.join(r, 'single.html')
    return {
        'dir': {'/static': pub},
        'dir-slashes': {'/static/': pub + '/'},
        'dir-dict-ct': {'/static': {'filename': pub, 'content_type': 'x-test/y'}},
        'dir-dict-noct': {'/static': {'filename': pub}},
        'files': {'/': single, '/index.html': {'filename': single, 'content_type': 'text/plain'},
                  '/static': pub},
        'override': {'/static': pub, '': 'custom.html'},
        'override-dict': {'/static': pub, '': {'filename': 'custom.html',
                                               'content_type': 'x-test/custom'}},
        'override-dict-noct': {'/static': {'filename': pub, 'content_type': 'x-test/y'},
                               '': {'filename': 'custom.html'}},
        'rootdir': {'/': pub + '/'},
        'none': None,
    }


ENDPOINTS = ['engine.io', '/eio/', 'a/b', 'engine.io', '/', '']     # ('/' and '': the server owns every path)
SEGS = ['static', 'sub', 'a.txt', 'index.html', 'deep', 'c.js', 'b.css', 'secret.txt', 'public',
        '.', '..', '', '%2e%2e', 'engine.io', 'engine.iox', 'noext']


def norm_endpoint(ep):
    if not ep.startswith('/'):
        ep = '/' + ep
    if not ep.endswith('/'):
        ep += '/'
    return ep


# ---------------------------------------------------------------------------------------------
# reference router for clean paths
# ---------------------------------------------------------------------------------------------
def is_clean(path):
    segs = path.split('/')[1:]
    return path.startswith('/') and all(s not in ('.', '..') and '%' not in s for s in segs) and \
        all(s != '' for s in segs[:-1])


def ref_static(path, mapping):
    """For a clean path -> (realpath, content_type) | None | 'open'."""
    if not mapping:
        return None
    default = mapping.get('')
    best = None
    for k, v in mapping.items():
        if k == '':
            continue
        kk = k[:-1] if k.endswith('/') else k           # '/' -> ''
        if path == k:
            cand = (10 ** 6, True, kk, v)
        elif k.endswith('/') and path == kk:
            return 'open'                               # '/static' against a '/static/' key
        elif path.startswith(kk + '/'):
            cand = (len(kk), False, kk, v)
        else:
            continue
        if best is None or cand[0] > best[0]:
            best = cand
    if best is None:
        return None
    _, exact, kk, v = best
    fn = v if isinstance(v, str) else v['filename']
    ct = None if isinstance(v, str) else v.get('content_type')
    target = fn if exact else fn.rstrip('/') + path[len(kk):]
    if target.endswith('/'):
        if default is not None:
            if isinstance(default, str):
                target += default
            else:
                target += default['filename']
                ct = default.get('content_type', ct)
        else:
            target += 'index.html'
    if not os.path.isfile(target):
        return None
    if ct is None:
        ct = EXT.get(target.rsplit('.')[-1], 'application/octet-stream')
    return os.path.realpath(target), ct


def allowed_roots(mapping):
    roots = []
    for k, v in (mapping or {}).items():
        if k == '':
            continue
        fn = v if isinstance(v, str) else v['filename']
        roots.append(os.path.realpath(fn))
    return roots


# ---------------------------------------------------------------------------------------------
# running the two middlewares
# ---------------------------------------------------------------------------------------------
class StubWsgiEngine:
    def handle_request(self, environ, start_response):
        start_response('200 OK', [('Content-Type', 'text/plain'), ('X-Who', 'engine')])
        return [b'ENGINE']


def stub_wsgi_app(environ, start_response):
    start_response('200 OK', [('Content-Type', 'text/plain'), ('X-Who', 'wrapped')])
    return [b'WRAPPED']


class StubAsgiEngine:
    async def handle_request(self, scope, receive, send):
        await send({'type': 'http.response.start', 'status': 200,
                    'headers': [(b'X-Who', b'engine')]})
        await send({'type': 'http.response.body', 'body': b'ENGINE'})


async def stub_asgi_app(scope, receive, send):
    if scope['type'] == 'lifespan':
        await send({'type': 'lifespan.delegated'})
        return
    await send({'type': 'http.response.start', 'status': 200, 'headers': [(b'X-Who', b'wrapped')]})
    await send({'type': 'http.response.body', 'body': b'WRAPPED'})


def make_app(which, cfgname, ep, wrapped):
    import engineio
    if which == 'wsgi':
        return engineio.WSGIApp(StubWsgiEngine(), wsgi_app=stub_wsgi_app if wrapped else None,
                                static_files=configs()[cfgname], engineio_path=ep)
    return engineio.ASGIApp(StubAsgiEngine(), other_asgi_app=stub_asgi_app if wrapped else None,
                            static_files=configs()[cfgname], engineio_path=ep)


def run_wsgi(cfgname, ep, wrapped, path, app=None):
    app = app or make_app('wsgi', cfgname, ep, wrapped)
    out = {}

    def sr(status, headers, exc_info=None):
        out['status'] = int(status[:3])
        out['headers'] = headers
    env = {'REQUEST_METHOD': 'GET', 'PATH_INFO': path, 'QUERY_STRING': '', 'wsgi.url_scheme': 'http',
           'HTTP_HOST': 'localhost', 'SERVER_NAME': 'localhost', 'SERVER_PORT': '80'}
    try:
        body = b''.join(app(env, sr))
    except Exception as e:      # noqa
        return {'exc': e}
    out['body'] = body
    out['ct'] = dict((k.lower(), v) for k, v in out.get('headers', [])).get('content-type')
    return out


_loop = None


def loop():
    global _loop
    if _loop is None:
        _loop = asyncio.new_event_loop()
    return _loop


def run_asgi(cfgname, ep, wrapped, path, app=None):
    app = app or make_app('asgi', cfgname, ep, wrapped)
    out = {'body': b''}
    sent = [{'type': 'http.request', 'body': b'', 'more_body': False}]

    async def receive():
        return sent.pop(0) if sent else {'type': 'http.disconnect'}

    async def send(ev):
        if ev['type'] == 'http.response.start':
            out['status'] = ev['status']
            out['headers'] = [(k.decode(), v.decode()) for k, v in ev.get('headers', [])]
        elif ev['type'] == 'http.response.body':
            out['body'] += ev.get('body', b'')
    scope = {'type': 'http', 'method': 'GET', 'path': path, 'query_string': b'', 'headers': [],
             'scheme': 'http'}
    try:
        loop().run_until_complete(app(scope, receive, send))
    except Exception as e:      # noqa
        return {'exc': e}
    out['ct'] = dict((k.lower(), v) for k, v in out.get('headers', [])).get('content-type')
    return out


def check_sequence(which, cfgname, ep, wrapped, paths, ctx=None):
    """Several requests to ONE application object: each is judged like a request to a fresh
    one (the answer to a request does not depend on the requests before it)."""
    app = make_app(which, cfgname, ep, wrapped)
    for k, path in enumerate(paths):
        check_path(which, cfgname, ep, wrapped, path, ctx, app=app, earlier=paths[:k])


def check_path(which, cfgname, ep, wrapped, path, ctx=None, app=None, earlier=None):
    t = tree()
    path = path.replace('{ROOT}', t['root'])
    rep = {'app': which, 'static': cfgname, 'endpoint': ep, 'wrapped': wrapped,
           'path': path.replace(t['root'], '{ROOT}')}
    if earlier is not None:
        rep['earlier'] = [p.replace(t['root'], '{ROOT}') for p in earlier]
    mapping = configs()[cfgname]
    res = (run_wsgi if which == 'wsgi' else run_asgi)(cfgname, ep, wrapped, path, app=app)
    epn = norm_endpoint(ep)
    under = path.startswith(epn)
    bare = path + '/' == epn
    seg_class = path_class(path, epn)
    if 'exc' in res:
        if is_clean(path) and not bare:
            raise V(which, 'clean-path-crashed', seg_class + '|' + type(res['exc']).__name__,
                    '%s %r raised %r' % (cfgname, path, res['exc']), rep)
        if ctx:
            ctx.case(rep, True, [which, 'unclean-path-raised'])
        return
    body = res.get('body')
    who = 'engine' if body == b'ENGINE' else 'wrapped' if body == b'WRAPPED' else \
        'file' if body in t['by_content'] else '404' if res.get('status') == 404 else 'other'
    # safety: whatever the path, a served file is a mapped file or beneath a mapped directory
    if who == 'file':
        real = t['by_content'][body]
        roots = allowed_roots(mapping)
        if not any(real == r or real.startswith(r + os.sep) for r in roots):
            raise V(which, 'file-outside-mapped-roots', seg_class,
                    '%s: %r served %s' % (cfgname, path, os.path.relpath(real, t['root'])), rep)
        ext_ct = EXT.get(real.rsplit('.')[-1], 'application/octet-stream')
        cts = {ext_ct}
        for k, v in (mapping or {}).items():
            if isinstance(v, dict) and v.get('content_type'):
                cts.add(v['content_type'])
        if res.get('ct') not in cts:
            raise V(which, 'wrong-content-type', str(res.get('ct')),
                    '%s: %r served %s as %r' % (cfgname, path, os.path.basename(real),
                                                res.get('ct')), rep)
    # the engine is reached exactly when the path lies under the endpoint
    if who == 'engine' and not under and not bare:
        raise V(which, 'engine-reached-outside-endpoint', seg_class,
                'endpoint %r, path %r reached the engine' % (epn, path), rep)
    if under and who != 'engine':
        raise V(which, 'engine-not-reached-under-endpoint', seg_class + '|' + who,
                'endpoint %r, path %r answered by %s' % (epn, path, who), rep)
    # clean paths: the whole decision
    if is_clean(path) and not under and not bare:
        want = ref_static(path, mapping)
        if want == 'open':
            pass
        elif want is not None:
            if who != 'file' or t['by_content'][body] != want[0]:
                raise V(which, 'static-file-not-served', seg_class + '|' + who,
                        '%s: %r should serve %s, answered by %s' % (
                            cfgname, path, os.path.relpath(want[0], t['root']), who), rep)
            if res.get('ct') != want[1]:
                raise V(which, 'wrong-content-type', str(res.get('ct')),
                        '%s: %r content type %r, expected %r' % (cfgname, path, res.get('ct'),
                                                                 want[1]), rep)
        else:
            expect = 'wrapped' if wrapped else '404'
            if who != expect:
                raise V(which, 'wrong-fallback', '%s-not-%s|%s' % (who, expect, seg_class),
                        '%s: %r has no static file; expected %s, answered by %s' % (
                            cfgname, path, expect, who), rep)
    if ctx:
        ctx.case(rep, seg_class != 'clean', [which, 'answered-by-' + who, 'path-' + seg_class])


def path_class(path, epn):
    segs = path.split('/')[1:]
    if '..' in segs:
        return 'dotdot'
    if '%2e%2e' in segs:
        return 'encoded'
    if '.' in segs:
        return 'dot'
    if any(s == '' for s in segs[:-1]):
        return 'empty-segment'
    if path.startswith(epn.rstrip('/')) or epn.rstrip('/').split('/')[-1] in path:
        return 'endpoint-prefix'
    return 'clean'


# ---------------------------------------------------------------------------------------------
# lifespan
# ---------------------------------------------------------------------------------------------
def check_lifespan(case, ctx=None):
    import engineio
    start_cb, stop_cb, wrapped, events = case
    rep = {'lifespan': {'on_startup': start_cb, 'on_shutdown': stop_cb, 'wrapped': wrapped,
                        'events': events}}
    calls = []

    def mk(kind, name):
        if kind == 'none':
            return None
        exc = asyncio.CancelledError if 'cancel' in kind else SystemExit if 'exit' in kind \
            else RuntimeError       # (what `await cancelled_task` / sys.exit() raise)
        if kind.startswith('sync'):
            def cb():
                calls.append(name)
                if kind.endswith('raise'):
                    raise exc('scripted')
            return cb

        async def acb():
            calls.append(name)
            if kind.endswith('raise'):
                raise exc('scripted')
        return acb
    app = engineio.ASGIApp(StubAsgiEngine(), other_asgi_app=stub_asgi_app if wrapped else None,
                           on_startup=mk(start_cb, 'startup'), on_shutdown=mk(stop_cb, 'shutdown'))
    pending = [{'type': 'lifespan.' + e} for e in events]
    out = []

    async def receive():
        if pending:
            return pending.pop(0)
        await asyncio.sleep(3600)

    async def send(ev):
        out.append(ev['type'])

    async def run():
        try:
            await asyncio.wait_for(app({'type': 'lifespan'}, receive, send), 0.5)
            return 'returned'
        except asyncio.TimeoutError:
            return 'waiting'
    try:
        end = loop().run_until_complete(run())
    except KeyboardInterrupt:
        raise
    except BaseException as e:      # noqa
        raise V('asgi', 'lifespan-raised', type(e).__name__, 'lifespan raised %r' % (e,), rep)
    # expected
    if wrapped and start_cb == 'none' and stop_cb == 'none':
        want = ['lifespan.delegated']
    else:
        want = []
        for e in events:
            cb = start_cb if e == 'startup' else stop_cb
            if cb.endswith('raise'):
                want.append('lifespan.%s.failed' % e)
                break
            want.append('lifespan.%s.complete' % e)
            if e == 'shutdown':
                break
    if out != want:
        raise V('asgi', 'lifespan-not-per-protocol',
                '%s/%s/%s' % (start_cb, stop_cb, 'wrapped' if wrapped else 'alone'),
                'events %s answered %s, expected %s' % (events, out, want), rep)
    if ctx:
        ctx.case(rep, 'raise' in start_cb + stop_cb, ['lifespan', 'lifespan-end-' + end])


CB = ['none', 'sync', 'async', 'sync-raise', 'async-raise', 'async-cancel-raise',
      'sync-exit-raise']
EVS = [['startup', 'shutdown'], ['startup'], ['shutdown'], ['startup', 'startup', 'shutdown']]


def run_shard(ctx):
    quick = ctx.tier == 'quick'
    tree()
    L = 3 if quick else 4
    mains = [('wsgi', 'dir', 'engine.io', False), ('asgi', 'dir', 'engine.io', False),
             ('wsgi', 'rootdir', 'engine.io', True), ('asgi', 'override', 'engine.io', True),
             ('wsgi', 'dir-slashes', 'engine.io', False), ('asgi', 'files', 'engine.io', False)]
    if not quick:
        mains += [('asgi', 'rootdir', 'engine.io', False), ('wsgi', 'files', 'a/b', True),
                  ('wsgi', 'override-dict', '/eio/', False), ('asgi', 'dir-dict-ct', 'engine.io', True)]
    idx = 0
    for n in range(0, L + 1):
        for tup in itertools.product(SEGS, repeat=n):
            for trail in ('', '/'):
                path = '/' + '/'.join(tup) + (trail if tup else '')
                for m in mains:
                    idx += 1
                    if idx % ctx.nshards != ctx.shard:
                        continue
                    try:
                        check_path(m[0], m[1], m[2], m[3], path, ctx)
                    except Violation as v:
                        if ctx.is_known(v):
                            ctx.note_known(v)
                        elif v.signature not in ctx.ignored:
                            ctx.add_violation(v)
    ctx.notes.append('exhaustive over all paths of <= %d segments (x trailing slash) for %d '
                     'configurations' % (L, len(mains)))
    # absolute paths of real files glued behind every mapped prefix (and empty segments)
    t = tree()
    idx2 = 0
    for rel in ('secret.txt', 'other/x.txt', 'public/a.txt', 'single.html'):
        ab = os.path.join(t['root'], rel)
        for prefix in ('/static', '/static/', '/static//', '/static///', '', '/', '//',
                       '/index.html/', '/static/sub/', '/static/sub//', '/engine.iox/'):
            for path in (prefix + ab, prefix + ab.lstrip('/'), prefix + '/' + ab + '/'):
                for which in ('wsgi', 'asgi'):
                    for cfgname in ('dir', 'dir-slashes', 'files', 'rootdir', 'override',
                                    'dir-dict-ct'):
                        idx2 += 1
                        if idx2 % ctx.nshards != ctx.shard:
                            continue
                        try:
                            check_path(which, cfgname, 'engine.io', False, path, ctx)
                        except Violation as v:
                            if ctx.is_known(v):
                                ctx.note_known(v)
                            elif v.signature not in ctx.ignored:
                                ctx.add_violation(v)
    seg = st.one_of(st.sampled_from(SEGS + ['eio', 'a', 'b', 'single.html', 'custom.html', 'other',
                                            'x.txt', 'inside.txt', '...', '..%2f', '%2e', ' ']),
                    st.text(alphabet='ab./%', max_size=4))
    path_st = st.tuples(st.sampled_from(['wsgi', 'asgi']), st.sampled_from(sorted(configs())),
                        st.sampled_from(ENDPOINTS), st.booleans(),
                        st.lists(seg, max_size=7), st.booleans())
    run_given(ctx, path_st,
              lambda c: check_path(c[0], c[1], c[2], c[3],
                                   '/' + '/'.join(c[4]) + ('/' if c[5] and c[4] else ''), ctx),
              max_examples=1200 if quick else 30000)
    # sequences of requests to one application object (bare mapping keys first, then files)
    keys = ['/static', '/static/', '/index.html', '/', '/static/sub', '/assets', '/favicon.ico',
            '/static/index.html', '/static/a.txt', '/static/sub/inside.txt', '/single.html']
    seq_st = st.tuples(st.sampled_from(['wsgi', 'asgi']), st.sampled_from(sorted(configs())),
                       st.sampled_from(ENDPOINTS), st.booleans(),
                       st.lists(st.one_of(st.sampled_from(keys),
                                          st.lists(seg, max_size=4).map(lambda x: '/' + '/'.join(x))),
                                min_size=2, max_size=5))
    run_given(ctx, seq_st, lambda c: check_sequence(c[0], c[1], c[2], c[3], c[4], ctx),
              max_examples=300 if quick else 6000)
    if ctx.shard == 0:
        for a in CB:
            for b in CB:
                for w in (False, True):
                    for evs in EVS:
                        try:
                            check_lifespan((a, b, w, evs), ctx)
                        except Violation as v:
                            if ctx.is_known(v):
                                ctx.note_known(v)
                            elif v.signature not in ctx.ignored:
                                ctx.add_violation(v)


def replay(case, ctx):
    if 'lifespan' in case:
        c = case['lifespan']
        check_lifespan((c['on_startup'], c['on_shutdown'], c['wrapped'], c['events']))
    elif case.get('earlier') is not None:
        check_sequence(case['app'], case['static'], case['endpoint'], case['wrapped'],
                       list(case['earlier']) + [case['path']])
    else:
        check_path(case['app'], case['static'], case['endpoint'], case['wrapped'], case['path'])
