#!/usr/bin/env python3
"""Run the repository's test suite and compare with /root/.vp/BASELINE.json stable_pass."""
import json, subprocess, sys, tempfile, os, xml.etree.ElementTree as ET
repo = sys.argv[1] if len(sys.argv) > 1 else '/repo'
base = json.load(open('/root/.vp/BASELINE.json'))
want = set(base['stable_pass'])
fd, path = tempfile.mkstemp(suffix='.xml'); os.close(fd)
subprocess.run(['/venv/bin/python', '-m', 'pytest', '-q', '-p', 'no:cacheprovider', '--timeout=900',
                '--continue-on-collection-errors', '--junitxml=' + path, '-x' if False else '-q'],
               cwd=repo, stdout=subprocess.DEVNULL, stderr=subprocess.DEVNULL,
               env=dict(os.environ, PYTHONPATH=os.path.join(repo, 'src')))
got = set()
for tc in ET.parse(path).getroot().iter('testcase'):
    if not any(c.tag in ('failure', 'error', 'skipped') for c in tc):
        got.add('%s::%s' % (tc.get('classname'), tc.get('name')))
os.unlink(path)
missing = sorted(want - got)
print('baseline stable_pass=%d passing_now=%d missing=%d' % (len(want), len(got), len(missing)))
for m in missing[:20]:
    print('  MISSING', m)
sys.exit(1 if missing else 0)
