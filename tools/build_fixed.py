#!/usr/bin/env python3
"""One-off helper: pick replays found on the original tree (/tmp/origrun/found) for every fixed
finding, copy them under replays/<ID>/ and write the 'fixed' list of known_findings.json."""
import glob, json, os, shutil
V = '/verif'
SRC = '/tmp/origrun/found'
T = [  # (F id, commit, property, signature (prefix), file stem, what failed)
 ('F1', '70d39f1', 'C01', None, None, None),
 ('F10', 'fd18103', 'C03', 'C03|thread|message-lost|polling|sent-during-upgrade-failed', 'F10-upgrade-error-leaves-polling-on-hold-thread', 'a handshake failing with an error left upgrading set: later polls answered NOOP and queued messages were never delivered (threaded)'),
 ('F10', 'fd18103', 'C03', 'C03|async|message-lost|polling|sent-during-upgrade-failed', 'F10-upgrade-error-leaves-polling-on-hold-async', 'same on the asyncio server (also when the socket closes before the probe)'),
 ('F6', '6c6116e', 'C04', 'C04|thread|bad-type-request-not-failed|type=6|pending', 'F6-post-with-server-only-type-blocks-thread', 'a POST carrying a NOOP packet never completed: disconnect(sid) waited for a queue nobody drains (threaded)'),
 ('F6', '6c6116e', 'C04', 'C04|async|bad-type-request-not-failed|type=6|pending', 'F6-post-with-server-only-type-blocks-async', 'same on the asyncio server'),
 ('F5', 'dbba5bb', 'C04', 'C04|async|bad-type-request-not-failed|type=7|status=200', 'F5-undefined-type-indexerror-async', 'asyncio: packet type 7 raised IndexError, the POST was answered 200 and the session kept'),
 ('F18', '8c4b530', 'C05', 'C05|async|event-after-disconnect|message|ws', 'F18-message-after-disconnect-async', 'asyncio: frames sent after the session ended still fired message events until the writer timed out'),
 ('F6', '6c6116e', 'C05', 'C05|async|end-cause-without-disconnect-event|protocol', 'F6-protocol-error-session-not-ended-async', 'asyncio: protocol error in a POST did not end the session in bounded time'),
 ('F11', 'a1409c5', 'C06', 'C06|thread|disallowed-transport-used|websocket-accepted', 'F11-upgrade-on-polling-only-server-thread', 'transport=polling with upgrade headers upgraded a session on a polling-only server (threaded)'),
 ('F11', 'a1409c5', 'C06', 'C06|async|disallowed-transport-used|websocket-accepted', 'F11-upgrade-on-polling-only-server-async', 'same on the asyncio server'),
 ('F10', 'fd18103', 'C06', 'C06|thread|queued-message-lost-after-handshake|polling|sent-during-upgrade-failed', 'F10-queued-lost-after-failed-handshake-thread', 'queued messages unreachable after a handshake that failed with an error (threaded)'),
 ('F10', 'fd18103', 'C06', 'C06|async|queued-message-lost-after-handshake|polling|sent-during-upgrade-failed', 'F10-queued-lost-after-failed-handshake-async', 'same on the asyncio server'),
 ('F2', '2a2a770', 'C11', 'C11|thread|open-field-wrong|pingInterval|fractional', 'F2-fractional-ping-interval-thread', 'pingInterval truncated to whole seconds (threaded)'),
 ('F2', '2a2a770', 'C11', 'C11|async|open-field-wrong|pingInterval|fractional', 'F2-fractional-ping-interval-async', 'pingInterval truncated to whole seconds (asyncio)'),
 ('F3', '21ae3c5', 'C11', 'C11|thread|upgrade-advertised-but-not-acceptable|allow=True|ws-allowed=False|polling', 'F3-upgrade-advertised-polling-only-thread', 'polling-only server advertised a websocket upgrade (threaded)'),
 ('F3', '21ae3c5', 'C11', 'C11|async|upgrade-advertised-but-not-acceptable|allow=True|ws-allowed=False|polling', 'F3-upgrade-advertised-polling-only-async', 'polling-only server advertised a websocket upgrade (asyncio)'),
 ('F16', 'ec832d8', 'C11', 'C11|thread|open-not-answered-200|outcome=none|polling', 'F16-cookie-attribute-false-thread', 'cookie attribute False raised TypeError out of the open request (threaded)'),
 ('F16', 'ec832d8', 'C11', 'C11|async|open-not-answered-200|outcome=none|polling', 'F16-cookie-attribute-false-async', 'cookie attribute False raised TypeError out of the open request (asyncio)'),
 ('F4', 'e5ec2ed', 'C12', 'C12|thread|refusal-raised|POST|sid=closed|sid-not-live|KeyError', 'F4-post-to-closed-session-keyerror-thread', 'POST naming a closed-but-unreaped session escaped as KeyError (threaded)'),
 ('F4', 'e5ec2ed', 'C12', 'C12|async|refusal-raised|POST|sid=closed|sid-not-live|KeyError', 'F4-post-to-closed-session-keyerror-async', 'POST naming a closed-but-unreaped session escaped as KeyError (asyncio)'),
 ('F6', '6c6116e', 'C14', 'C14|thread|oversize-post-not-400|post|declared-limit=L+1|equal', 'F6-oversize-post-blocks-thread', 'a POST declared over the limit never completed (threaded)'),
 ('F6', '6c6116e', 'C14', 'C14|async|oversize-post-not-400|post|declared-limit=L+1|equal', 'F6-oversize-post-blocks-async', 'a POST declared over the limit never completed (asyncio)'),
 ('F9', 'ac48e05', 'C15', 'C15|async|api-call-raised|disconnect-all|no-session|ValueError', 'F9-disconnect-all-empty-table-async', 'AsyncServer.disconnect() with no sessions raised ValueError'),
 ('F4', 'e5ec2ed', 'C15', 'C15|thread|exception-escaped|post|KeyError', 'F4-post-keyerror-escapes-thread', 'KeyError escaped the gateway call (threaded)'),
 ('F4', 'e5ec2ed', 'C15', 'C15|async|exception-escaped|post|KeyError', 'F4-post-keyerror-escapes-async', 'KeyError escaped the gateway call (asyncio)'),
 ('F6', '6c6116e', 'C15', 'C15|thread|request-never-completes|post|no-poll-pending', 'F6-post-never-completes-thread', 'POST with a protocol error blocked its worker forever (threaded)'),
 ('F6', '6c6116e', 'C15', 'C15|async|request-never-completes|post|no-poll-pending', 'F6-post-never-completes-async', 'POST with a protocol error never completed (asyncio)'),
 ('F23', '7f28408', 'C15', 'C15|thread|gateway-contract|raw-GET|start_response', 'F23-ws-open-without-connection-header-thread', 'GET transport=websocket with Upgrade but no Connection header: start_response never called, packets returned as body (threaded)'),
 ('F23', '7f28408', 'C15', 'C15|async|gateway-contract|raw-GET|state', 'F23-ws-open-without-connection-header-async', 'same request on the asyncio server: no response started'),
 ('F13', '3c6202a', 'C19', 'C19|codec|jsonp-literal-evaluates-to-other-payload|backslash', 'F13-jsonp-backslash', 'JSONP escaped only double quotes: a backslash changed the payload'),
 ('F13', '3c6202a', 'C19', 'C19|codec|jsonp-body-not-one-call-statement|line-terminator', 'F13-jsonp-line-terminator', 'JSONP escaped only double quotes: a line terminator broke the script'),
 ('F13', '3c6202a', 'C19', 'C19|thread|payload-changed-by-transformation|None|jsonp|backslash', 'F13-jsonp-end-to-end-thread', 'end to end (threaded)'),
 ('F13', '3c6202a', 'C19', 'C19|async|payload-changed-by-transformation|None|jsonp|backslash', 'F13-jsonp-end-to-end-async', 'end to end (asyncio)'),
 ('F14', 'c9d8bf2', 'C20', 'C20|wsgi|file-outside-mapped-roots|dotdot', 'F14-static-path-traversal-wsgi', '/static/../secret.txt served by WSGIApp'),
 ('F14', 'c9d8bf2', 'C20', 'C20|asgi|file-outside-mapped-roots|dotdot', 'F14-static-path-traversal-asgi', '/static/../secret.txt served by ASGIApp'),
 ('F5', 'dbba5bb', 'C18', 'C18|both|admission-decisions-differ|post|POST|400-vs-200', 'F5-undefined-type-divergence', 'threaded answers 400 to a POST with an undefined packet type, asyncio answered 200'),
]
kf = json.load(open(V + '/known_findings.json'))
fixed = [e for e in kf['fixed'] if e['property'] == 'C01']
# already committed by hand
fixed.append({'property': 'C05', 'commit': 'ae4f0e0', 'id': 'F19', 'line': 'fixed: property=C05 ae4f0e0 disconnect() of all clients racing with a new connection dropped the new session from the table without a disconnect event', 'description': 'disconnect() all racing an open', 'replay': 'replays/C05/F19-disconnect-all-races-open.json'})
fixed.append({'property': 'C20', 'commit': '2073fe1', 'id': 'F20', 'line': 'fixed: property=C20 2073fe1 a request for a mapped directory without trailing slash raised IsADirectoryError (WSGIApp)', 'description': 'directory path crashed', 'replay': 'replays/C20/F20-directory-path-wsgi.json'})
fixed.append({'property': 'C20', 'commit': '2073fe1', 'id': 'F20', 'line': 'fixed: property=C20 2073fe1 same for ASGIApp', 'description': 'directory path crashed', 'replay': 'replays/C20/F20-directory-path-asgi.json'})
fixed.append({'property': 'C14', 'commit': '0802a6e', 'id': 'F21', 'line': 'fixed: property=C14 0802a6e the ASGI driver buffered the whole request body before the size limit was consulted', 'description': 'ASGI reads beyond the bound', 'replay': 'replays/C14/F21-asgi-buffers-whole-body.json'})
fixed.append({'property': 'C15', 'commit': '7f28408', 'id': 'F23', 'line': 'fixed: property=C15 7f28408 GET transport=websocket with Upgrade but without Connection header got no response at all', 'description': 'no response for half-formed ws open', 'replay': 'replays/C15/F23-websocket-open-without-connection-header.json'})
missing = []
for fid, commit, pid, sig, stem, what in T:
    if sig is None:
        continue
    cands = []
    for f in glob.glob('%s/%s/found/*.json' % (SRC, pid)):
        d = json.load(open(f))
        if d['signature'] == sig:
            cands.append((os.path.getsize(f), f))
    if not cands:
        missing.append((pid, sig))
        continue
    src = sorted(cands)[0][1]
    dst = 'replays/%s/%s.json' % (pid, stem)
    os.makedirs(os.path.dirname(V + '/' + dst), exist_ok=True)
    shutil.copy(src, V + '/' + dst)
    fixed.append({'property': pid, 'commit': commit, 'id': fid,
                  'line': 'fixed: property=%s %s %s' % (pid, commit, what),
                  'description': what, 'replay': dst})
kf['fixed'] = fixed
json.dump(kf, open(V + '/known_findings.json', 'w'), indent=1)
print('fixed entries', len(fixed), 'missing', missing)
