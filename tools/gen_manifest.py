#!/usr/bin/env python3
"""Regenerate /verif/MANIFEST.json from the table below (keeps the manifest valid at all times)."""
import json
import os

VERIF = os.path.dirname(os.path.dirname(os.path.abspath(__file__)))

PBT = 'property-based testing (Hypothesis generators, seeded, sharded x16) against '

KERNEL_NOTE = ('Trusted base: the simulation kernel (virtual clock; baton scheduler with cooperative '
               'switching at blocking points only; VQueue/VEvent/VThread models of queue.Queue/'
               'threading.Event/Thread; VLoop; WSGI/ASGI gateway and WebSocket fakes following the '
               'simple-websocket / ASGI contracts). Other async drivers and real sockets are not '
               'exercised.')

CHECKS = {
    'C01': dict(
        technique=PBT + 'an independent reference codec + exhaustive catalogue product + '
                        'coverage-guided fuzzing (atheris) with the same oracle',
        text='Generated search: ~5*10^4 (quick) / ~10^6 (thorough) packets x encode-call histories '
             'compared with a reference v4 encoder/decoder written from the statement; plus the '
             'full product 7 types x 54-payload catalogue x every flag sequence up to length 3/4. '
             'Thorough tier adds 16 atheris campaigns of 150k executions (structured decoding '
             'of the fuzzer bytes; engineio and the reference model both instrumented). '
             'Not a proof: the payload space is infinite; the flag-history part is complete up to '
             'length 4 for the catalogue.',
        note='Trusts stdlib json/base64 as the reference. Container ints >= 10^100 are outside the '
             'stated domain (documented parse guard) and only checked for totality.',
        design='4/C01'),
    'C02': dict(
        technique=PBT + 'a reference body reader; exhaustive enumeration of all short strings over '
                        'an adversarial alphabet; coverage-guided fuzzing (atheris) with the same '
                        'oracle',
        text='Every string of length <=4 over 20 symbols (quick, 168k) / <=5 over 24 symbols '
             '(thorough, 8.3M) is decoded and compared with a reference reader (invalid => must '
             'raise, well-formed => equal, rest => total); plus generated packet lists of 0..20 '
             'packets (encode == separator join, round trip, >16 refused, d= forms) and size '
             'templates for no-hang; thorough adds 16 atheris campaigns of 150k executions over '
             'strings, d= forms and packet lists. Exhaustive for the short-string domain only.',
        note='Trusts stdlib json/base64/urllib.parse. Malformed base64, non-ASCII digits and '
             'nesting beyond the recursion limit are open cells (totality only). Hangs are '
             'detected by a 5 s x3 wall-clock rule on templates.',
        design='4/C02'),
    'C07': dict(
        technique='stateful property-based testing under a virtual clock: generated peer timing '
                  'profiles and deadline-relative clock steps, timeline oracle',
        text='Generated histories over a settings grid (fractional, equal, grace), 1-4 sessions '
             'with PONG delays {0, T/2, T-e, T, T+e, 2T, never}, sends and clock steps placed just '
             'before/at/after each server deadline; oracle: PINGs exactly at open+I and PONG+I, '
             'timely peers never dropped, ping timeout only for a PING outstanding more than T, '
             'silent peers dropped by open+I+3T (monitor on) and at the first send after the '
             'deadline, no poll held beyond I+T. Liveness "never" is checked up to the history '
             'horizon only.',
        note=KERNEL_NOTE + ' A PONG exactly at the deadline coincides with other I+T timeouts: '
             'open cell for the live-peer clause.', design='4/C07'),
    'C13': dict(
        technique=PBT + 'a reference allow-set; metamorphic twin request without the Origin header',
        text='Generated (configuration form, credentials, Host/scheme/X-Forwarded-*, Origin incl. '
             '11 near-miss mutations of each allowed origin, request kind, server) on fresh worlds '
             'holding a live session with a queued message; refused origins must get 400 / no '
             'WebSocket, no event, queue untouched; allowed origins behave like the twin without '
             'the header; CORS headers never over-grant.',
        note=KERNEL_NOTE + ' ASGI: with X-Forwarded-Proto the own-scheme origin is an open cell.',
        design='4/C13'),
    'C14': dict(
        technique=PBT + 'boundary-value generation around every limit, instrumented body reader',
        text='Generated (limit, carrier: POST / established WebSocket / handshake frames, length '
             'in limit-2..limit+2, 0, 1, 10x, declared vs actual length, chunking, packet count '
             '0..18) on fresh worlds; oracle: nothing oversize reaches a handler, reads bounded by '
             'min(declared, limit) (WSGI read sizes; ASGI receive() calls), exact acceptance at '
             'the limit, oversize ends the session, <=16 packets dispatched.',
        note=KERNEL_NOTE + ' Exactness asserted for ASCII text and bytes only.', design='4/C14'),
    'C15': dict(
        technique='stateful property-based testing with raw/malformed request generation; gateway '
                  'contract validators and a virtual-time completion bound',
        text='Generated histories mixing normal traffic with raw requests (any method, garbage '
             'queries, JSONP, Origin, partial upgrade headers, malformed bodies and '
             'Content-Length) and send/disconnect calls in every state; oracle: WSGI/ASGI contract '
             'validators, status in {200,400,401,405}, no escaped exception, nothing pending '
             'beyond I+T+1 at the end. Known findings F7/F8/F22 (disconnect blocks) are reported '
             'as KNOWN-FINDING by signature.',
        note=KERNEL_NOTE + ' API calls issued inside an unsettled step are counted, not judged.',
        design='4/C15'),
    'C16': dict(
        technique='stateful (model-based) property-based testing: model dict of live sessions and '
                  'saved user data vs the real server',
        text='Generated long histories with up to 5 sessions, rejected opens, every end cause, '
             'vanishing clients, session API calls on live/dead/rejected/foreign ids, many monitor '
             'sweeps; oracle: dead ids inert (KeyError / silent send / nothing delivered), user '
             'data agrees with the model, table == live set after drain (monitor on).',
        note=KERNEL_NOTE + ' Reads server.sockets for the final table check.', design='4/C16'),
    'C18': dict(
        technique='differential property-based testing: one generated history replayed against '
                  'both server implementations under the same clock script',
        text='Generated settled histories over the union alphabet, executed on the threaded and '
             'the asyncio server; compared: per-session event logs and reasons, delivered messages '
             'and transport, status of explicit requests answered inside their step, '
             'transport()/liveness after every step; sessions are compared until a silence-caused '
             'end becomes possible.',
        note=KERNEL_NOTE + ' disconnect() of all sessions is steered around (known finding F7).',
        design='4/C18'),
    'C08': dict(
        technique='property-based testing of the real clients against the real server of the same '
                  'kind with generated fault scripts injected at the client I/O boundary; '
                  'lifecycle-grammar oracle',
        text='Generated (client kind, transports, <=2 faults: HTTP request n refused / error '
             'status / undecodable, empty, non-OPEN body / hang / dropped after processing; '
             'WebSocket connect refused; frame n dropped / replaced / swallowed / silence; send '
             'drops) x application script (sends, clock steps, disconnect by client or server, '
             'disconnect from inside each handler, calls while disconnected, reconnects); oracle: '
             'connect() returns or raises ConnectionError in bounded time, one disconnect per '
             'connection, clean reusable state, wait() returns, no event after the end.',
        note=KERNEL_NOTE + ' Fake requests / websocket-client / aiohttp session objects are part '
             'of the trusted base.', design='4/C08'),
    'C09': dict(
        technique='property-based testing of the real clients against the real server with '
                  'generated URLs, send sequences and injected frames; wire-level oracle on '
                  'everything the client sent and received',
        text='Generated URLs (scheme, host, port, path, query) x engineio_path x transports x send '
             'sequences/bursts both ways x injected PINGs with data, NOOPs, unknown types, wrong / '
             'missing probe answers, silence (WebSocket and polling); oracle: PONG echo in order, '
             'exactly-once ordered delivery both ways, wire form of binary, request URL form and '
             'scheme mapping, upgrade only after the probe, silence detected within I+T(+5)+'
             'request_timeout.',
        note=KERNEL_NOTE + ' Fake requests / websocket-client / aiohttp session objects are part '
             'of the trusted base.', design='4/C09'),
    'C10': dict(
        technique='property-based testing of all four real client x server pairs in one '
                  'deterministic world (baton scheduler, virtual-time loop, or both on one clock)',
        text='Generated conversations (bursts of 1..40 sends either way, payload kinds, sends from '
             'inside the connect handler, idle periods up to 50/300 heartbeat cycles, disconnect by '
             'either side) x transports x heartbeat settings; oracle: both message logs equal the '
             "other side's send log, no disconnect while connected, one disconnect on each side "
             'after either side disconnects.',
        note=KERNEL_NOTE + ' Cross-kind pairs run in a hybrid world in which the harness settles '
             'the scheduler and the loop alternately; interleavings between the two kinds are '
             'therefore coarser than within one kind.', design='4/C10'),
    'C11': dict(
        technique='enumeration of the configuration grid x handler outcomes on fresh servers, '
                  'model oracle; behavioural confirmation of advertised upgrades',
        text='124416-cell grid of ping_interval/timeout/grace, buffer size, allow_upgrades, '
             'transports, cookie forms, connect-handler outcomes, open kind, JSONP, both servers; '
             'quick runs a seed-ordered quarter, thorough all of it (exhaustive for the grid).',
        note=KERNEL_NOTE + ' Set-Cookie on WebSocket opens is an open cell.', design='4/C11'),
    'C12': dict(
        technique='exhaustive enumeration of the request cross product against freshly built '
                  'session states, reference admission rule + no-side-effect oracle',
        text='All 78400 feasible cells of method x EIO x transport x sid kind x request kind (plain, '
             'WebSocket upgrade, two kinds of inexact upgrade headers) x '
             'JSONP index x configured transports x server, each on a fresh world with a queued '
             'tagged message and a bystander session; refused requests must leave events, '
             'sessions, queue and transport() untouched. Exhaustive for this product in both '
             'tiers; cells the statement does not decide are open (counted).',
        note=KERNEL_NOTE, design='4/C12'),
    'C17': dict(
        technique=PBT + 'algebraic laws of the id generator under a controlled random source; '
                        'exhaustive full-period enumeration (thorough)',
        text='Format, pair law id(c+a,r)!=id(c+b,r) for offsets < 2^24, counter step law at all '
             'power-of-two boundaries and the wrap, >=12 CSPRNG bytes requested and >=96 '
             'effective bits per issue, consecutive windows across the wrap; thorough enumerates '
             'the full period of 2^24 issues from two starts (exhaustive).',
        note='Reads/writes server.sequence_number (anchored state) to start windows; replaces '
             'secrets/os.urandom as seen by engineio.base_server. Unpredictability itself is not '
             'testable.',
        design='4/C17'),
    'C19': dict(
        technique=PBT + 'an ECMAScript string-literal evaluator and stdlib gzip/zlib as inverse; '
                        'exhaustive short strings for the JSONP encoder',
        text='All strings <=3/4 over a 16-symbol adversarial alphabet through '
             'Payload.encode(jsonp_index), generated payload lists, and end-to-end polls on both '
             'servers with drawn Accept-Encoding shapes, compression on/off, thresholds around the '
             'body size and JSONP indices; losslessness and labelling oracle.',
        note=KERNEL_NOTE + ' The evaluator is cross-checked against nodejs when present. q=0 '
             'offers are an open cell.', design='4/C19'),
    'C20': dict(
        technique='exhaustive enumeration of segment sequences + generated paths against a '
                  'temporary file tree, black-box content oracle and reference router',
        text='All paths of <=3/4 segments from a 16-segment alphabet (with/without trailing slash) '
             'for 6/10 configurations of WSGIApp/ASGIApp, generated longer paths for all '
             'configurations, and all 200 lifespan cases; served files identified by unique '
             'content must lie in mapped roots, content types, engine reached iff under the '
             'endpoint, clean paths equal the reference router.',
        note='Uses a tempfile tree outside /repo and /verif. /engine.io without trailing slash is '
             'an open cell.', design='4/C20'),
    'C03': dict(
        technique='stateful property-based testing: Hypothesis-drawn session histories executed '
                  'against the real servers under a deterministic scheduler/clock, per-session '
                  'delivery oracle over uniquely tagged messages',
        text='Generated search over histories (quick 16x150, thorough 16x3000; <=30/60 actions) of '
             'sends, polls (pending/overlapping), upgrade-handshake prefixes, pongs and clock steps '
             'on both servers; oracle: tagged MESSAGE sequence per session is duplicate-free, in '
             'send order, never foreign, polls return everything queued, polls during an upgrade '
             'return only NOOP, everything sent to a surviving session arrives after drain. '
             'Bounded exploration, not exhaustive.',
        note=KERNEL_NOTE, design='4/C03'),
    'C04': dict(
        technique='stateful property-based testing with a reference body/frame decoder as oracle',
        text='Generated histories whose POST bodies / frames use every packet type 0-9, every '
             'payload kind, CLOSE/invalid packets at every position, over-limit bodies; oracle: '
             'model of the statement (exactly-once, wire order, per-type effect, nothing from '
             'refused bodies). Units are judged when issued into a live, quiet session; other '
             'units only get the at-most-once / no-invention checks.',
        note=KERNEL_NOTE + ' Packets after a CLOSE or refused type in the same body are an open '
             'cell.', design='4/C04'),
    'C05': dict(
        technique='stateful property-based testing; event-grammar and cause/reason oracle over '
                  'the application handler log',
        text='Generated histories heavy on end causes (CLOSE, disconnect(sid)/disconnect(), '
             'silence, socket closed/failed, poll timeout, protocol errors), sequential and inside '
             'one unsettled step, with connect outcomes and handler exceptions; oracle: connect '
             '(message)* disconnect? per sid, one disconnect at most, none after, reason belongs to '
             'a cause that had occurred, and to the single cause when it was injected alone.',
        note=KERNEL_NOTE + ' Events caused by units already in flight when the session ended are '
             'exempt (statement: received afterwards).', design='4/C05'),
    'C06': dict(
        technique='stateful property-based testing; transport() compared with a handshake model '
                  'at every quiet point',
        text='Generated histories heavy on upgrade sockets (all frame sequences, closures/faults '
             'at every point, concurrent polls/sends, second attempts, ws-first opens, '
             'transport=polling upgrade requests, transports/allow_upgrades settings); oracle: '
             'transport(sid) == model, refused attempts never accepted, nothing queued is lost '
             'after failed handshakes, disallowed transports never used.',
        note=KERNEL_NOTE + ' allow_upgrades=False with an explicit upgrade attempt is an open '
             'cell.', design='4/C06'),
}

NOT_YET = {}


def main():
    props = [json.loads(l) for l in open(os.path.join(VERIF, 'properties.jsonl'))]
    checks = []
    na = []
    for p in props:
        pid = p['id']
        if pid in CHECKS:
            c = CHECKS[pid]
            checks.append({
                'property_id': pid,
                'quick_cmd': './check %s --tier quick' % pid,
                'thorough_cmd': './check %s --tier thorough' % pid,
                'evidence_file': 'evidence/%s.json' % pid,
                'replay_cmd_template': './check %s --replay {path}' % pid,
                'engine': 'vk',
                'level_claimed': {'category': c.get('category', 'exploration'),
                                  'text': c['text'], 'design_ref': c['design']},
                'level_note': c['note'],
                'technique': c['technique'],
            })
        else:
            na.append({'property_id': pid,
                       'reason': NOT_YET.get(pid, 'check not built yet in this session (planned: '
                                             'see DESIGN.md section 4); nothing is claimed')})
    m = {
        'version': 1,
        'setup_cmd': '/venv/bin/python -c "import hypothesis" 2>/dev/null || /venv/bin/pip install '
                     '--no-index --find-links /opt/veriftools/wheels hypothesis',
        'hooks': {
            'guard': 'ENGINEIO_VERIF',
            'enable': 'no source hooks exist: the harness rebinds module attributes in its own '
                      'process only (DESIGN.md 2.6); checks import /repo/src directly, nothing is '
                      'built',
            'baseline_off_cmd': 'cd /repo && /venv/bin/python -m pytest -ra -q -p no:cacheprovider '
                                '--timeout=900 --continue-on-collection-errors',
            'source_commits': [],
            'add_only': True,
        },
        'engines': [{'name': 'vk', 'path': 'vk/', 'serves_properties': sorted(CHECKS),
                     'kind_free_text': 'deterministic simulation kernel (virtual clock, baton '
                                       'thread scheduler, virtual-time asyncio loop, WSGI/ASGI '
                                       'gateways, client/server simulators) + Hypothesis-driven '
                                       'runner with sharding, known-finding signatures and JSON '
                                       'replays'}],
        'checks': checks,
        'not_applicable': na,
        'notes': 'Run from /verif. ./check <ID> --tier quick|thorough [--replay FILE]. VERIF_SEED '
                 'selects the Hypothesis seeds (shard i uses VERIF_SEED*100003+i). Exit 0 held, 1 '
                 'VIOLATION, 2 harness error. known_findings.json lists known and fixed findings.',
    }
    with open(os.path.join(VERIF, 'MANIFEST.json'), 'w') as f:
        json.dump(m, f, indent=1)
    print('MANIFEST.json: %d checks, %d not claimed' % (len(checks), len(na)))


if __name__ == '__main__':
    main()
