#!/usr/bin/env python3
"""Regenerate /verif/MANIFEST.json from the table below (keeps the manifest valid at all times)."""
import json
import os

VERIF = os.path.dirname(os.path.dirname(os.path.abspath(__file__)))

PBT = 'property-based testing (Hypothesis generators, seeded, sharded x16) against '

CHECKS = {
    'C01': dict(
        technique=PBT + 'an independent reference codec + exhaustive catalogue product',
        text='Generated search: ~5*10^4 (quick) / ~10^6 (thorough) packets x encode-call histories '
             'compared with a reference v4 encoder/decoder written from the statement; plus the '
             'full product 7 types x 54-payload catalogue x every flag sequence up to length 3/4. '
             'Not a proof: the payload space is infinite; the flag-history part is complete up to '
             'length 4 for the catalogue.',
        note='Trusts stdlib json/base64 as the reference. Container ints >= 10^100 are outside the '
             'stated domain (documented parse guard) and only checked for totality.',
        design='4/C01'),
}

NOT_YET = {}


def main():
    props = [json.loads(l) for l in open(os.path.join(VERIF, 'properties.jsonl'))]
    checks = []
    na = []
    for p in props:
        pid = p['id']
        if pid in CHECKS:
            c = CHECKS[pid]
            checks.append({
                'property_id': pid,
                'quick_cmd': './check %s --tier quick' % pid,
                'thorough_cmd': './check %s --tier thorough' % pid,
                'evidence_file': 'evidence/%s.json' % pid,
                'replay_cmd_template': './check %s --replay {path}' % pid,
                'engine': 'vk',
                'level_claimed': {'category': c.get('category', 'exploration'),
                                  'text': c['text'], 'design_ref': c['design']},
                'level_note': c['note'],
                'technique': c['technique'],
            })
        else:
            na.append({'property_id': pid,
                       'reason': NOT_YET.get(pid, 'check not built yet in this session (planned: '
                                             'see DESIGN.md section 4); nothing is claimed')})
    m = {
        'version': 1,
        'setup_cmd': '/venv/bin/python -c "import hypothesis" 2>/dev/null || /venv/bin/pip install '
                     '--no-index --find-links /opt/veriftools/wheels hypothesis',
        'hooks': {
            'guard': 'ENGINEIO_VERIF',
            'enable': 'no source hooks exist: the harness rebinds module attributes in its own '
                      'process only (DESIGN.md 2.6); checks import /repo/src directly, nothing is '
                      'built',
            'baseline_off_cmd': 'cd /repo && /venv/bin/python -m pytest -ra -q -p no:cacheprovider '
                                '--timeout=900 --continue-on-collection-errors',
            'source_commits': [],
            'add_only': True,
        },
        'engines': [{'name': 'vk', 'path': 'vk/', 'serves_properties': sorted(CHECKS),
                     'kind_free_text': 'deterministic simulation kernel (virtual clock, baton '
                                       'thread scheduler, virtual-time asyncio loop, WSGI/ASGI '
                                       'gateways, client/server simulators) + Hypothesis-driven '
                                       'runner with sharding, known-finding signatures and JSON '
                                       'replays'}],
        'checks': checks,
        'not_applicable': na,
        'notes': 'Run from /verif. ./check <ID> --tier quick|thorough [--replay FILE]. VERIF_SEED '
                 'selects the Hypothesis seeds (shard i uses VERIF_SEED*100003+i). Exit 0 held, 1 '
                 'VIOLATION, 2 harness error. known_findings.json lists known and fixed findings.',
    }
    with open(os.path.join(VERIF, 'MANIFEST.json'), 'w') as f:
        json.dump(m, f, indent=1)
    print('MANIFEST.json: %d checks, %d not claimed' % (len(checks), len(na)))


if __name__ == '__main__':
    main()
