#!/usr/bin/env python3
"""tools/mkmut.py <out.diff> <relpath> <old> <new> [<relpath> <old> <new> ...]
Build a unified diff (relative to the repo root) replacing exactly one occurrence of old by new."""
import difflib, sys, os
out = sys.argv[1]
args = sys.argv[2:]
diff = []
for i in range(0, len(args), 3):
    rel, old, new = args[i:i+3]
    old = old.encode().decode('unicode_escape'); new = new.encode().decode('unicode_escape')
    src = open(os.path.join('/repo', rel)).read()
    n = src.count(old)
    if n != 1:
        sys.exit('%s: %d occurrences of %r' % (rel, n, old))
    dst = src.replace(old, new)
    diff += list(difflib.unified_diff(src.splitlines(True), dst.splitlines(True), 'a/' + rel, 'b/' + rel))
os.makedirs(os.path.dirname(out), exist_ok=True)
open(out, 'w').write(''.join(diff))
print('wrote', out)
