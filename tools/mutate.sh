#!/bin/bash
# tools/mutate.sh <patch.diff> <ID> [<ID>...]  -- apply a patch to a scratch copy of /repo/src and
# run the quick checks against it (evidence and replays go to the scratch dir, not /verif).
set -u
patch="$(realpath "$1")"; shift
scratch=$(mktemp -d /tmp/mut-XXXXXX)
mkdir -p "$scratch/repo"
cp -r /repo/src "$scratch/repo/src"
( cd "$scratch/repo" && git init -q . >/dev/null 2>&1; patch -p1 -s < "$patch" ) || { echo "PATCH FAILED"; rm -rf "$scratch"; exit 3; }
rc_all=0
for id in "$@"; do
  VERIF_REPO="$scratch/repo" VERIF_EVIDENCE_DIR="$scratch/ev" VERIF_FOUND_DIR="$scratch/found" \
    /verif/check "$id" --tier "${TIER:-quick}" > "$scratch/out-$id.txt" 2>&1
  rc=$?
  echo "== $id rc=$rc"; grep -E "VIOLATION|signature|detail|HARNESS|KNOWN" "$scratch/out-$id.txt" | head -${LINES_SHOWN:-8}
  tail -1 "$scratch/out-$id.txt"
  [ $rc -ne 0 ] && rc_all=$rc
done
rm -rf "$scratch"
exit $rc_all
