#!/usr/bin/env python3
"""tools/mutation_audit.py [ID ...]  - sensitivity audit (DESIGN.md 2.10).
For every mutants/<ID>/*.diff: copy /repo to a scratch directory, apply the patch, run the
repository's test suite (must still match BASELINE.json) and the quick check (must exit 1), delete
the copy. Writes mutants/RESULTS.md."""
import glob, os, re, shutil, subprocess, sys, tempfile, time
V = os.path.dirname(os.path.dirname(os.path.abspath(__file__)))
ids = sys.argv[1:] or sorted(os.path.basename(d) for d in glob.glob(V + '/mutants/C*'))
rows = []
for pid in ids:
    for patch in sorted(glob.glob('%s/mutants/%s/*.diff' % (V, pid))):
        scratch = tempfile.mkdtemp(prefix='audit-')
        try:
            repo = os.path.join(scratch, 'repo')
            subprocess.run(['git', '-C', '/repo', 'worktree', 'add', '-f', '--detach', repo, 'HEAD'],
                           capture_output=True)
            ap = subprocess.run(['git', '-C', repo, 'apply', patch], capture_output=True, text=True)
            if ap.returncode != 0:
                rows.append((pid, os.path.basename(patch), 'PATCH-FAILED', '', ''))
                continue
            b = subprocess.run(['python3', V + '/tools/baseline.py', repo], capture_output=True, text=True)
            suite = 'passes' if 'missing=0' in b.stdout else 'FAILS: ' + b.stdout.strip().split('\n')[0]
            t0 = time.time()
            env = dict(os.environ, VERIF_REPO=repo, VERIF_EVIDENCE_DIR=scratch + '/ev',
                       VERIF_FOUND_DIR=scratch + '/found')
            c = subprocess.run([V + '/check', pid, '--tier', 'quick'], capture_output=True, text=True, env=env)
            sigs = re.findall(r'signature: (.*)', c.stdout)
            rows.append((pid, os.path.basename(patch), suite,
                         'CAUGHT' if c.returncode == 1 else 'missed (rc=%d)' % c.returncode,
                         (sigs[0] if sigs else '') + ' (%.0fs)' % (time.time() - t0)))
        finally:
            subprocess.run(['git', '-C', '/repo', 'worktree', 'remove', '--force', os.path.join(scratch, 'repo')],
                           capture_output=True)
            shutil.rmtree(scratch, ignore_errors=True)
        print(rows[-1], flush=True)
out = ['# Sensitivity audit (tools/mutation_audit.py)', '',
       'Each patch is applied to a scratch worktree of /repo; "suite" = the repository test suite '
       'still matches BASELINE.json; "check" = outcome of `./check <ID> --tier quick` against it.', '',
       '| property | mutant | suite | check | first signature |', '|---|---|---|---|---|']
for r in rows:
    out.append('| %s | %s | %s | %s | %s |' % r)
caught = sum(1 for r in rows if r[3] == 'CAUGHT')
out += ['', '%d mutants, %d caught by the quick tier.' % (len(rows), caught)]
path = V + '/mutants/RESULTS.md'
if sys.argv[1:] and os.path.exists(path):
    path = V + '/mutants/RESULTS-%s.md' % '-'.join(ids)
open(path, 'w').write('\n'.join(out) + '\n')
print('wrote', path)
