#!/usr/bin/env python3
"""tools/seed_eval.py <seed-name> <src-dir-with-_seeded> <property> <check ids...>
Confirm a sub-agent's seeded change independently in a fresh scratch worktree of /repo (patch
applies, repository suite still matches the baseline, the demonstration fails with the change and
passes without it), run our checks against it, store everything under /verif/seeded/<seed-name>/
and remove the worktree."""
import json, os, re, shutil, subprocess, sys, tempfile, time
V = os.path.dirname(os.path.dirname(os.path.abspath(__file__)))
name, src, prop = sys.argv[1], sys.argv[2], sys.argv[3]
checks = sys.argv[4:] or [prop]
seeded = os.path.join(src, '_seeded')
out = os.path.join(V, 'seeded', name)
os.makedirs(out, exist_ok=True)
for f in ('patch.diff', 'demo.py', 'NOTES.md'):
    shutil.copy(os.path.join(seeded, f), os.path.join(out, f))
scratch = tempfile.mkdtemp(prefix='seedeval-')
wt = os.path.join(scratch, 'repo')
meta = {'property': prop, 'name': name, 'ran': []}
try:
    subprocess.run(['git', '-C', '/repo', 'worktree', 'add', '-f', '--detach', wt, 'HEAD'], capture_output=True)
    def demo():
        shutil.copytree(seeded, os.path.join(wt, '_seeded'), dirs_exist_ok=True)
        # the demos refer to their own worktree path: rewrite it to ours
        p = os.path.join(wt, '_seeded', 'demo.py')
        s = open(p).read().replace(src, wt)
        open(p, 'w').write(s)
        r = subprocess.run(['/venv/bin/python', p], capture_output=True, text=True, timeout=300,
                           env=dict(os.environ, PYTHONPATH=os.path.join(wt, 'src')), cwd=wt)
        return r.returncode, (r.stdout + r.stderr)[-400:]
    rc0, _ = demo()
    meta['demo_without_change_exit'] = rc0
    ap = subprocess.run(['git', '-C', wt, 'apply', os.path.join(out, 'patch.diff')], capture_output=True, text=True)
    meta['patch_applies'] = ap.returncode == 0
    b = subprocess.run(['python3', V + '/tools/baseline.py', wt], capture_output=True, text=True)
    meta['suite'] = b.stdout.strip().split('\n')[0]
    rc1, tail = demo()
    meta['demo_with_change_exit'] = rc1
    meta['demo_output_tail'] = tail
    meta['confirmed'] = bool(meta['patch_applies'] and 'missing=0' in meta['suite'] and rc1 != 0 and rc0 == 0)
    for cid in checks:
        for tier in (['quick'] + (['thorough'] if os.environ.get('SEED_THOROUGH') else [])):
            t0 = time.time()
            env = dict(os.environ, VERIF_REPO=wt, VERIF_EVIDENCE_DIR=scratch + '/ev', VERIF_FOUND_DIR=scratch + '/found')
            c = subprocess.run([V + '/check', cid, '--tier', tier], capture_output=True, text=True, env=env)
            sigs = re.findall(r'signature: (.*)', c.stdout)
            meta['ran'].append({'cmd': 'VERIF_REPO=<worktree with patch> ./check %s --tier %s' % (cid, tier),
                                'exit': c.returncode, 'signatures': sigs[:6], 'wall_s': round(time.time() - t0, 1)})
            if c.returncode == 1:
                break
    meta['caught_by'] = sorted(set(r['cmd'].split('./check ')[1].split()[0] for r in meta['ran'] if r['exit'] == 1))
finally:
    subprocess.run(['git', '-C', '/repo', 'worktree', 'remove', '--force', wt], capture_output=True)
    shutil.rmtree(scratch, ignore_errors=True)
notes = open(os.path.join(out, 'NOTES.md')).read()
meta['needs_to_manifest'] = notes[:1500]
json.dump(meta, open(os.path.join(out, 'meta.json'), 'w'), indent=1)
print(json.dumps({k: meta[k] for k in ('name', 'confirmed', 'suite', 'demo_without_change_exit', 'demo_with_change_exit', 'caught_by')}))
for r in meta['ran']:
    print('  ', r['cmd'], 'exit', r['exit'], r['signatures'][:2], r['wall_s'])
