#!/usr/bin/env python3
"""Build seeded/SUMMARY.md from seeded/*/meta.json."""
import glob, json, os
V = os.path.dirname(os.path.dirname(os.path.abspath(__file__)))
rows = []
for f in sorted(glob.glob(V + '/seeded/*/meta.json')):
    m = json.load(open(f))
    notes = open(os.path.join(os.path.dirname(f), 'NOTES.md')).read().strip().split('\n')
    idea = next((l.strip('# *-').strip() for l in notes if len(l.strip()) > 40), '')[:160]
    last = {}
    for r in m['ran']:
        cid = r['cmd'].split('./check ')[1].split()[0]
        last[cid] = r
    res = '; '.join('%s: %s' % (c, 'caught (%s)' % (r['signatures'][0].split('|', 2)[2] if r['signatures'] else '')
                                if r['exit'] == 1 else 'missed') for c, r in last.items())
    rows.append('| %s | %s | %s | %s | %s |' % (m['name'], m['property'], 'yes' if m['confirmed'] else 'NO', idea.replace('|', '/'), res.replace('|', '/')))
out = ['# Seeded changes (written by independent sub-agents that saw only the property text)', '',
       'Confirmed = patch applies to a fresh worktree of /repo HEAD, the repository suite still matches BASELINE.json, '
       'the demonstration exits 0 without and non-zero with the change (re-run by tools/seed_eval.py). '
       'The last column is the final outcome of our quick checks against the change (after any strengthening; '
       'DESIGN.md 8.4 says which checks missed it at first).', '',
       '| seed | property | confirmed | idea (first line of the agent notes) | checks |', '|---|---|---|---|---|'] + rows
open(V + '/seeded/SUMMARY.md', 'w').write('\n'.join(out) + '\n')
print('\n'.join(out[-len(rows):]))
