#!/bin/bash
# tools/seed_sweep.sh <tier> <seed>...   run every check at the given seeds on the working tree,
# evidence and found replays go to a scratch directory; prints one line per run + violations.
tier=$1; shift
out=$(mktemp -d /tmp/sweep.XXXXXX)
for sd in "$@"; do
  for c in C01 C02 C03 C04 C05 C06 C07 C08 C09 C10 C11 C12 C13 C14 C15 C16 C17 C18 C19 C20; do
    VERIF_SEED=$sd VERIF_EVIDENCE_DIR=$out/ev VERIF_FOUND_DIR=$out/found-$sd ./check $c --tier $tier 2>&1 \
      | grep "^VIOLATION\|signature\|^$c \|HARNESS" | sed "s/^/seed=$sd /"
  done
done
echo "sweep output in $out"
