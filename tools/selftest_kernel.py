#!/venv/bin/python
"""Trusted-base self-test (DESIGN.md 2.2): VQueue / VEvent agree with queue.Queue /
threading.Event on single-threaded operation sequences (differential Hypothesis test), and the
string-literal evaluator agrees with json.loads on JSON string literals."""
import json
import os
import queue
import sys
import threading

sys.path.insert(0, os.path.dirname(os.path.dirname(os.path.abspath(__file__))))
from hypothesis import given, settings, strategies as st, seed  # noqa: E402
from vk import sched as vs, clock, refmodel as rm  # noqa: E402

vs.set_sched(vs.Sched(clock.reset()))
ops = st.lists(st.one_of(st.tuples(st.just('put'), st.integers(0, 9)), st.just(('get',)),
                         st.just(('task_done',)), st.just(('qsize',)), st.just(('empty',))),
               max_size=40)


@seed(int(os.environ.get('VERIF_SEED', '1')))
@settings(max_examples=3000, deadline=None, database=None)
@given(ops)
def test_queue(seq):
    a, b = queue.Queue(), vs.VQueue()
    for op in seq:
        ra = rb = None
        try:
            if op[0] == 'put':
                a.put(op[1]); b.put(op[1])
            elif op[0] == 'get':
                try:
                    ra = ('v', a.get(block=False))
                except queue.Empty:
                    ra = ('empty',)
                try:
                    rb = ('v', b.get(block=False))
                except vs.Empty:
                    rb = ('empty',)
            elif op[0] == 'task_done':
                try:
                    a.task_done(); ra = 'ok'
                except ValueError:
                    ra = 'err'
                try:
                    b.task_done(); rb = 'ok'
                except ValueError:
                    rb = 'err'
            elif op[0] == 'qsize':
                ra, rb = a.qsize(), b.qsize()
            else:
                ra, rb = a.empty(), b.empty()
        finally:
            assert ra == rb, (op, ra, rb)
        assert a.unfinished_tasks == b.unfinished_tasks


@seed(int(os.environ.get('VERIF_SEED', '1')))
@settings(max_examples=1000, deadline=None, database=None)
@given(st.lists(st.sampled_from(['set', 'clear', 'is_set', 'wait0']), max_size=20))
def test_event(seq):
    a, b = threading.Event(), vs.VEvent()
    for op in seq:
        if op == 'set':
            a.set(); b.set()
        elif op == 'clear':
            a.clear(); b.clear()
        elif op == 'is_set':
            assert a.is_set() == b.is_set()
        else:
            assert a.wait(0) == b.flag


@seed(int(os.environ.get('VERIF_SEED', '1')))
@settings(max_examples=3000, deadline=None, database=None)
@given(st.text(max_size=20))
def test_js_literal_vs_json(s):
    for lit in (json.dumps(s), json.dumps(s, ensure_ascii=False)):
        v, end = rm.js_string_literal(lit, 0)
        assert end == len(lit) and rm.utf16_equal(v, s), (lit, v)


if __name__ == '__main__':
    test_queue(); test_event(); test_js_literal_vs_json()
    print('kernel self-test: ok')
