"""Run one coverage-guided campaign (fuzz/atheris_codec.py, atheris on libFuzzer, tooling venv)
from inside a shard and fold its result into the shard's context."""
import json
import os
import shutil
import subprocess
import tempfile

from .runner import Violation

PY = '/opt/veriftools/pyvenv/bin/python'
HERE = os.path.dirname(os.path.dirname(os.path.abspath(__file__)))


def campaign(ctx, prop, runs, max_len=160, timeout_s=1800):
    if not os.path.exists(PY):
        ctx.notes.append('atheris campaign skipped: %s not present' % PY)
        return
    tmp = tempfile.mkdtemp(prefix='verif-ath-')
    try:
        os.mkdir(os.path.join(tmp, 'corpus'))
        out = os.path.join(tmp, 'result.json')
        seed = (ctx.seed % (2 ** 31 - 1)) or 1
        cmd = [PY, os.path.join(HERE, 'fuzz', 'atheris_codec.py'), '--prop', prop, '--out', out,
               '-runs=%d' % runs, '-seed=%d' % seed, '-max_len=%d' % max_len,
               '-print_final_stats=0', os.path.join(tmp, 'corpus')]
        env = dict(os.environ)
        env.pop('PYTHONPATH', None)
        try:
            p = subprocess.run(cmd, cwd=tmp, capture_output=True, text=True, timeout=timeout_s,
                               env=env)
        except subprocess.TimeoutExpired:
            ctx.notes.append('atheris campaign hit its wall-clock limit (inconclusive)')
            ctx.inconclusive = True
            return
        res = None
        if os.path.exists(out):
            try:
                res = json.load(open(out))
            except ValueError:
                res = None
        if res is None:
            if 'ModuleNotFoundError' in p.stderr or 'ImportError' in p.stderr:
                ctx.notes.append('atheris campaign skipped: %s' % p.stderr.strip()[-200:])
                return
            if p.returncode != 0:
                raise RuntimeError('atheris harness failed (rc=%s): %s' % (
                    p.returncode, (p.stdout + p.stderr)[-600:]))
            return
        n = int(res.get('executions', 0))
        ctx.evaluations += n
        ctx.count('atheris-executions', n)
        ctx.count('atheris-nontrivial-executions', int(res.get('nontrivial', 0)))
        v = res.get('violation')
        if v:
            viol = Violation(prop, v['impl'], v['clause'], v['trigger'], v['detail'], v['case'])
            if ctx.is_known(viol):
                ctx.note_known(viol)
            elif viol.signature not in ctx.ignored:
                ctx.add_violation(viol)
        elif p.returncode != 0:
            raise RuntimeError('atheris harness failed (rc=%s): %s' % (
                p.returncode, (p.stdout + p.stderr)[-600:]))
    finally:
        shutil.rmtree(tmp, ignore_errors=True)
