"""asyncio world: the real AsyncServer + ASGIApp + asgi driver on a VLoop (DESIGN.md 2.3/2.4)."""
import asyncio
import collections
import inspect

from . import clock as vclock
from .gw import Req, WsConn, Call
from .vloop import VLoop


class SilentLogger:
    def __getattr__(self, name):
        return lambda *a, **k: None


class DetRandom:
    """Deterministic stand-in for secrets.token_bytes (replayable sids)."""

    def __init__(self):
        self.n = 0

    def token_bytes(self, k):
        self.n += 1
        return (self.n * 0x9E3779B97F4A7C15 % (1 << (8 * k))).to_bytes(k, 'big')

    def __getattr__(self, name):
        import secrets
        return getattr(secrets, name)


def hdr_bytes(v):
    """Header value as the bytes a client puts on the wire (UTF-8 when not ASCII)."""
    try:
        return v.encode('ascii')
    except UnicodeEncodeError:
        return v.encode('utf-8')


def patch_secrets():
    import engineio.base_server as bs
    det = DetRandom()
    bs.secrets = det
    return det


class HandlerCall:
    """An API call made by a handler itself (echo, disconnect from inside the message handler)."""

    def __init__(self, name, args, t):
        self.name, self.args = name, args
        self.done, self.exc, self.result = False, None, None
        self.t_start, self.t_end = t, None
        self.sess = None
        self.in_handler = True


class AppLog:
    """Application handlers: log every event; scripted connect outcome and handler faults."""

    def __init__(self, world):
        self.world = world
        self.events = []                 # (vtime, event, sid, arg)
        self.steps = []                  # parallel to events: executor step number
        self.step = 0
        self.connect_outcomes = collections.deque()   # ('ret', v) | ('raise',)
        self.fault = {'message': 0, 'disconnect': 0}
        self.fault_exc = {'message': [], 'disconnect': []}    # exception class names, FIFO
        self.connect_sends = []          # payloads the connect handler sends to the new session
        self.environs = {}
        self.on_event = None             # optional callback(event, sid, arg)
        self.outcome_by_ord = {}         # open ordinal -> ('ret', v) | ('raise',)
        self.sid_ord = {}                # sid -> open ordinal (from the X-Verif-Open header)
        self.ord_sid = {}
        self.busy = 0                    # handlers currently running (incl. their delay)
        self.delay = {}                  # event -> virtual seconds the handler takes (it logs
                                         # the event first, then sleeps: other causes may race)
        self.farewell = False            # the disconnect handler sends a last message itself
        self.react = None                # optional callback(event, sid, data) -> actions the
                                         # handler itself performs: ('send', payload, rec) |
                                         # ('disconnect', rec); rec is a HandlerCall
        self.can_react = False

    def _reactions(self, event, sid, data):
        if self.react is None or not self.can_react:
            return []
        return self.react(event, sid, data) or []

    def _reacted(self, rec, exc):
        rec.exc = exc
        rec.done = True
        rec.t_end = self.world.clock.now

    def _connect(self, sid, environ):
        self.events.append((self.world.clock.now, 'connect', sid, None))
        self.steps.append(self.step)
        self.environs[sid] = environ
        if self.on_event:
            self.on_event('connect', sid, None)
        o = environ.get('HTTP_X_VERIF_OPEN')
        if o is not None:
            self.sid_ord[sid] = int(o)
            self.ord_sid[int(o)] = sid
            oc = self.outcome_by_ord.get(int(o))
            if oc is not None:
                if oc[0] == 'raise':
                    if len(oc) > 1 and oc[1] == 'TypeError':
                        raise TypeError('scripted connect handler failure (TypeError)')
                    raise RuntimeError('scripted connect handler failure')
                return oc[1]
        if self.connect_outcomes:
            o = self.connect_outcomes.popleft()
            if o[0] == 'raise':
                raise RuntimeError('scripted connect handler failure')
            return o[1]
        return None

    def _message(self, sid, data):
        self.events.append((self.world.clock.now, 'message', sid, data))
        self.steps.append(self.step)
        if self.on_event:
            self.on_event('message', sid, data)
        if self.fault['message'] > 0:
            self.fault['message'] -= 1
            raise self._exc('message')('scripted message handler failure')

    def _disconnect(self, sid, reason):
        self.events.append((self.world.clock.now, 'disconnect', sid, reason))
        self.steps.append(self.step)
        if self.on_event:
            self.on_event('disconnect', sid, reason)
        if self.fault['disconnect'] > 0:
            self.fault['disconnect'] -= 1
            raise self._exc('disconnect')('scripted disconnect handler failure')

    def _exc(self, event):
        name = self.fault_exc[event].pop(0) if self.fault_exc[event] else 'RuntimeError'
        return {'RuntimeError': RuntimeError, 'TypeError': TypeError, 'KeyError': KeyError,
                'ValueError': ValueError, 'OSError': OSError,
                # what `task.cancel(); await task` in a handler's clean-up raises
                'CancelledError': asyncio.CancelledError}.get(name, RuntimeError)

    def install(self, server, coroutine_handlers, legacy_disconnect=False, sleep=None, style=None):
        """legacy_disconnect: register the documented one-argument disconnect handler; the reason
        is then not visible to the log (recorded as None).  sleep: blocking sleep of the world
        (threaded world) used for handler delays."""
        self.can_react = bool(coroutine_handlers) or not asyncio.iscoroutinefunction(server.send)
        if coroutine_handlers:
            async def react(sid, acts):
                for act in acts:
                    try:
                        if act[0] == 'send':
                            await server.send(sid, act[1])
                        else:
                            await server.disconnect(sid)
                        self._reacted(act[-1], None)
                    except Exception as e:      # noqa (an application catching its own errors)
                        self._reacted(act[-1], e)

            async def connect(sid, environ):
                self.busy += 1
                try:
                    r = self._connect(sid, environ)
                    for d in self.connect_sends:
                        await server.send(sid, d)
                    if self.delay.get('connect'):
                        await asyncio.sleep(self.delay['connect'])
                    return r
                finally:
                    self.busy -= 1

            async def message(sid, data):
                self.busy += 1
                try:
                    r = self._message(sid, data)
                    await react(sid, self._reactions('message', sid, data))
                    return r
                finally:
                    try:
                        if self.delay.get('message'):
                            await asyncio.sleep(self.delay['message'])
                    finally:
                        self.busy -= 1

            async def _disc(sid, reason):
                self.busy += 1
                try:
                    # (the farewell goes out whether or not a scripted fault follows: which
                    # session's handler a queued fault hits depends on the order sessions end in)
                    err = None
                    try:
                        r = self._disconnect(sid, reason)
                    except (Exception, asyncio.CancelledError) as e:      # noqa
                        err = e
                    if self.farewell:
                        await react(sid, self._reactions('disconnect', sid, reason))
                    if err is not None:
                        raise err
                    return r
                finally:
                    try:
                        if self.delay.get('disconnect'):
                            await asyncio.sleep(self.delay['disconnect'])
                    finally:
                        self.busy -= 1

            if legacy_disconnect == 'varargs':
                async def disconnect(*args):         # a handler written with a lone *args
                    try:
                        return await _disc(args[0], args[1] if len(args) > 1 else None)
                    except TypeError as e:
                        # (the library retries a disconnect handler that raised TypeError with
                        # one argument - its one-argument compatibility path - and a *args
                        # handler would then really run twice: out of scope here)
                        raise ValueError(str(e))
            elif legacy_disconnect:
                async def disconnect(sid):
                    return await _disc(sid, None)
            else:
                async def disconnect(sid, reason):
                    return await _disc(sid, reason)
        else:
            def nap(event):
                if sleep is not None and self.delay.get(event):
                    self.busy += 1
                    try:
                        sleep(self.delay[event])
                    finally:
                        self.busy -= 1

            def connect(sid, environ):
                r = self._connect(sid, environ)
                for d in self.connect_sends:
                    server.send(sid, d)
                nap('connect')
                return r

            def react(sid, acts):
                if not acts:
                    return
                self.busy += 1
                try:
                    for act in acts:
                        try:
                            if act[0] == 'send':
                                server.send(sid, act[1])
                            else:
                                server.disconnect(sid)
                            self._reacted(act[-1], None)
                        except Exception as e:      # noqa
                            self._reacted(act[-1], e)
                finally:
                    self.busy -= 1

            def _disc_sync(sid, reason):
                err = None
                try:
                    r = self._disconnect(sid, reason)
                except (Exception, asyncio.CancelledError) as e:      # noqa  (see above)
                    err = e
                if self.farewell:
                    react(sid, self._reactions('disconnect', sid, reason))
                if err is not None:
                    raise err
                return r

            def message(sid, data):
                try:
                    r = self._message(sid, data)
                    react(sid, self._reactions('message', sid, data))
                    return r
                finally:
                    nap('message')

            if legacy_disconnect == 'varargs':
                def disconnect(*args):               # a handler written with a lone *args
                    try:
                        return _disc_sync(args[0], args[1] if len(args) > 1 else None)
                    except TypeError as e:
                        raise ValueError(str(e))     # (see the coroutine form above)
                    finally:
                        nap('disconnect')
            elif legacy_disconnect:
                def disconnect(sid):
                    try:
                        return _disc_sync(sid, None)
                    finally:
                        nap('disconnect')
            else:
                def disconnect(sid, reason):
                    try:
                        return _disc_sync(sid, reason)
                    finally:
                        nap('disconnect')
        # handlers need not be plain functions: functools.partial objects and (for synchronous
        # handlers) instances with __call__ are callables without __name__ / __qualname__
        if style == 'partial':
            import functools
            connect, message, disconnect = (functools.partial(f)
                                            for f in (connect, message, disconnect))
        elif style == 'object' and not coroutine_handlers:
            class Handler:
                def __init__(self, f):
                    self.f = f

                def __call__(self, *args):
                    return self.f(*args)
            connect, message, disconnect = Handler(connect), Handler(message), Handler(disconnect)
        server.on('connect', connect)
        server.on('message', message)
        server.on('disconnect', disconnect)


class AWorld:
    impl = 'async'

    def __init__(self, config=None, coroutine_handlers=True, app_kwargs=None, raise_after_close=True,
                 legacy_disconnect=False, clock=None, loop=None, handler_delay=None,
                 preempt=False, timer_jitter=0.0, handler_style=None, farewell=False):
        import engineio
        self.clock = clock or vclock.reset()
        vclock.patch_engineio_time()
        self.rand = patch_secrets()
        self.loop = loop or VLoop(self.clock)
        self.loop.jitter = float(timer_jitter or 0.0)
        cfg = dict(config or {})
        cfg.setdefault('logger', SilentLogger())
        self.config = cfg
        self.server = engineio.AsyncServer(async_mode='asgi', **cfg)
        self.app_log = AppLog(self)
        self.app_log.delay = dict(handler_delay or {})
        self.app_log.farewell = bool(farewell)
        self.app_log.install(self.server, coroutine_handlers, legacy_disconnect, style=handler_style)
        self.app = engineio.ASGIApp(self.server, **(app_kwargs or {}))
        self.raise_after_close = raise_after_close
        self.reqs, self.conns, self.calls = [], [], []

    # -- time -----------------------------------------------------------------------------
    def _guarded(self, fn, *a):
        from . import watchdog
        try:
            with watchdog.guard():
                return fn(*a)
        except watchdog.BusyLoop:
            self.poisoned = True
            raise

    def settle(self, pick=None):
        self._guarded(self.loop.run_until_idle, 0.0)

    def advance(self, dt):
        self._guarded(self.loop.run_until_idle, dt)

    def advance_to(self, t):
        self._guarded(self.loop.run_until, t)

    def next_deadline(self):
        return self.loop.next_timer()

    # -- http -------------------------------------------------------------------------------
    def http(self, method, query, headers=(), body=b'', declared=None, chunks=1,
             path='/engine.io/', scheme='http', early_disconnect=False):
        if declared is None and (body or method == 'POST'):
            declared = len(body)
        hdrs = list(headers)
        undeclared = declared == 'absent'       # a body sent without Content-Length (chunked)
        if undeclared:
            declared = None
        if declared is not None:
            hdrs.append(('Content-Length', str(declared)))
        req = Req(self, method, path, query, hdrs, body, declared)
        scope = {
            'type': 'http', 'asgi': {'version': '3.0', 'spec_version': '2.3'},
            'http_version': '1.1', 'method': method, 'scheme': scheme, 'path': path,
            'raw_path': path.encode('utf-8', 'surrogateescape'),
            'query_string': query.encode('utf-8', 'surrogateescape')
            if isinstance(query, str) else query,
            'root_path': '',
            'headers': [(k.lower().encode('latin-1'), hdr_bytes(v)) for k, v in hdrs],
            'client': ('127.0.0.1', 40000), 'server': ('127.0.0.1', 80),
        }
        events = collections.deque()
        if early_disconnect:
            events.append({'type': 'http.disconnect'})
        else:
            n = max(1, chunks)
            size = max(1, -(-len(body) // n)) if body else 1
            parts = [body[i:i + size] for i in range(0, len(body), size)] or [b'']
            for i, part in enumerate(parts):
                events.append({'type': 'http.request', 'body': part,
                               'more_body': i < len(parts) - 1})
        gone = self.loop.create_future()
        req._gone = gone
        st = {'state': 'init'}

        async def receive():
            if events:
                ev = events.popleft()
                req.pulls.append(req.bytes_pulled)      # bytes already held before this call
                req.bytes_pulled += len(ev.get('body') or b'')
                return ev
            await gone
            return {'type': 'http.disconnect'}

        async def send(ev):
            t = ev.get('type') if isinstance(ev, dict) else None
            if t == 'http.response.start':
                req.start_calls += 1
                if st['state'] != 'init':
                    req.contract.append('http.response.start in state %s' % st['state'])
                st['state'] = 'started'
                status = ev.get('status')
                if not isinstance(status, int) or not 100 <= status <= 599:
                    req.contract.append('bad status %r' % (status,))
                else:
                    req.status = status
                hs = ev.get('headers', [])
                out = []
                try:
                    for h in hs:
                        k, v = h
                        if not isinstance(k, bytes) or not isinstance(v, bytes):
                            req.contract.append('header not (bytes, bytes): %r' % (h,))
                        else:
                            if b'\r' in k + v or b'\n' in k + v:
                                req.contract.append('header contains CR/LF: %r' % (h,))
                            out.append((k.decode('latin-1'), v.decode('latin-1')))
                except Exception as e:
                    req.contract.append('headers malformed: %r' % (e,))
                req.resp_headers = out
            elif t == 'http.response.body':
                if st['state'] not in ('started', 'body'):
                    req.contract.append('http.response.body in state %s' % st['state'])
                b = ev.get('body', b'')
                if not isinstance(b, (bytes, bytearray)):
                    req.contract.append('body is %s, not bytes' % type(b).__name__)
                    b = b''
                req.resp_body = (req.resp_body or b'') + bytes(b)
                st['state'] = 'body' if ev.get('more_body') else 'complete'
            else:
                req.contract.append('unexpected event on http scope: %r' % (t,))
                if isinstance(t, str) and t.startswith('websocket.'):
                    req.ws_attempt = True       # the server tried to speak WebSocket here

        async def run():
            try:
                await self.app(scope, receive, send)
            except BaseException as e:      # noqa
                req.exc = e
            finally:
                req.done = True
                req.t_end = self.clock.now
                if req.exc is None and st['state'] != 'complete':
                    req.contract.append('gateway call returned with response in state %s'
                                        % st['state'])

        req._task = self.loop.create_task(run())
        self.reqs.append(req)
        return req

    def client_gone(self, req):
        if not req._gone.done():
            req._gone.set_result(None)

    # -- websocket ---------------------------------------------------------------------------
    def ws_open(self, query, headers=(), path='/engine.io/', scheme='ws', upgrade_hdrs=None,
                fail_accept=False):
        conn = WsConn(self, query, list(headers))
        conn.fail_accept = fail_accept
        scope = {
            'type': 'websocket', 'asgi': {'version': '3.0', 'spec_version': '2.3'},
            'http_version': '1.1', 'scheme': scheme, 'path': path,
            'raw_path': path.encode(), 'query_string': query.encode('utf-8', 'surrogateescape'),
            'root_path': '',
            'headers': [(k.lower().encode('latin-1'), hdr_bytes(v))
                        for k, v in (list(headers) + (
                            list(upgrade_hdrs) if upgrade_hdrs is not None else
                            [('Upgrade', 'websocket'), ('Connection', 'Upgrade')]))],
            'client': ('127.0.0.1', 40000), 'server': ('127.0.0.1', 80), 'subprotocols': [],
        }
        events = collections.deque([{'type': 'websocket.connect'}])
        conn._events = events
        conn._waiter = None
        st = {'state': 'connecting'}
        conn._st = st

        async def receive():
            while not events:
                if st['state'] == 'closed':
                    return {'type': 'websocket.disconnect', 'code': 1006}
                conn._waiter = self.loop.create_future()
                await conn._waiter
                conn._waiter = None
            ev = events.popleft()
            if ev['type'] == 'websocket.receive':
                conn.handshake_seen.append(ev.get('text') if ev.get('text') is not None
                                           else ev.get('bytes'))
            return ev

        def wake_client():
            ws = getattr(conn, '_client_waiters', None)
            if ws:
                conn._client_waiters = []
                for fut in ws:
                    if not fut.done():
                        fut.set_result(None)

        async def send(ev):
            try:
                return await send_(ev)
            finally:
                wake_client()

        async def send_(ev):
            t = ev.get('type') if isinstance(ev, dict) else None
            if st['state'] == 'closed':
                conn.tolerated.append('%s after close' % t)
                if self.raise_after_close:
                    raise RuntimeError("Unexpected ASGI message '%s' after close" % t)
                return
            if t == 'websocket.accept' and conn.fail_accept:
                # the peer went away before the handshake response could be written
                conn.failed = True
                st['state'] = 'closed'
                raise OSError('peer gone during the WebSocket handshake (scripted)')
            if t == 'websocket.accept':
                if st['state'] != 'connecting':
                    conn.contract.append('websocket.accept in state %s' % st['state'])
                st['state'] = 'open'
                conn.accepted = True
                try:
                    conn.resp_headers = [(k.decode('latin-1'), v.decode('latin-1'))
                                         for k, v in ev.get('headers', [])]
                except Exception as e:
                    conn.contract.append('accept headers malformed: %r' % (e,))
            elif t == 'websocket.send':
                if st['state'] != 'open':
                    conn.contract.append('websocket.send in state %s' % st['state'])
                b, x = ev.get('bytes'), ev.get('text')
                if (b is None) == (x is None):
                    conn.contract.append('websocket.send needs exactly one of bytes/text')
                elif b is not None and not isinstance(b, (bytes, bytearray)):
                    conn.contract.append('websocket.send bytes is %s' % type(b).__name__)
                elif x is not None and not isinstance(x, str):
                    conn.contract.append('websocket.send text is %s' % type(x).__name__)
                if getattr(conn, 'fail_next_send', 0):
                    conn.fail_next_send -= 1    # one write fails, the connection itself survives
                    conn.soft_failed_at = self.clock.now
                    from .gw import write_error
                    raise write_error(conn, 'write failed (scripted, transient)')
                if conn.failed:
                    # the network path is dead: what the server writes now reaches nobody, and
                    # the gateway says so (as uvicorn does with ClientDisconnected, an OSError;
                    # the threaded world's WebSocket wrapper raises OSError as well)
                    conn.lost = getattr(conn, 'lost', 0) + 1
                    from .gw import write_error
                    raise write_error(conn, 'connection lost')
                else:
                    conn.sent.append((self.clock.now, x if x is not None else bytes(b or b'')))
            elif t == 'websocket.close':
                if st['state'] == 'connecting':
                    conn.rejected = True
                st['state'] = 'closed'
                conn.server_closed = True
                conn.t_closed = self.clock.now
                if conn._waiter is not None and not conn._waiter.done():
                    conn._waiter.set_result(None)
            elif t in ('websocket.http.response.start', 'websocket.http.response.body'):
                conn.tolerated.append(t)
            else:
                conn.contract.append('unexpected event on websocket scope: %r' % (t,))

        async def run():
            try:
                await self.app(scope, receive, send)
            except BaseException as e:      # noqa
                conn.exc = e
            finally:
                conn.done = True
                conn.t_end = self.clock.now
                wake_client()

        conn._task = self.loop.create_task(run())
        self.conns.append(conn)
        return conn

    def _push(self, conn, ev):
        conn._events.append(ev)
        if conn._waiter is not None and not conn._waiter.done():
            conn._waiter.set_result(None)

    def ws_client_send(self, conn, frame):
        if isinstance(frame, (bytes, bytearray)):
            self._push(conn, {'type': 'websocket.receive', 'bytes': bytes(frame), 'text': None})
        else:
            self._push(conn, {'type': 'websocket.receive', 'text': frame, 'bytes': None})

    def ws_client_close(self, conn):
        conn.peer_closed = True
        self._push(conn, {'type': 'websocket.disconnect', 'code': 1000})

    def ws_fail_next_send(self, conn):
        conn.fail_next_send = getattr(conn, 'fail_next_send', 0) + 1

    def ws_fail(self, conn, exc=None):
        conn.failed = True
        conn.fail_exc = exc
        conn.peer_closed = True
        self._push(conn, {'type': 'websocket.disconnect', 'code': 1006})

    # -- application API -----------------------------------------------------------------------
    def call(self, name, *args):
        c = Call(self, name, args)

        async def run():
            try:
                r = getattr(self.server, name)(*args)
                if inspect.isawaitable(r):
                    r = await r
                c.result = dict(r) if isinstance(r, dict) else r     # value at return time
            except BaseException as e:   # noqa
                c.exc = e
            finally:
                c.done = True
                c.t_end = self.clock.now

        c._task = self.loop.create_task(run())
        self.calls.append(c)
        return c

    def session_ctx(self, sid, key, value):
        """async with server.session(sid) as s: s[key] = value"""
        c = Call(self, 'session', (sid, key, value))

        async def run():
            try:
                async with self.server.session(sid) as s:
                    c.result = dict(s)
                    if key is not None:
                        s[key] = value
            except BaseException as e:   # noqa
                c.exc = e
            finally:
                c.done = True
                c.t_end = self.clock.now

        c._task = self.loop.create_task(run())
        self.calls.append(c)
        return c

    # -- inspection ------------------------------------------------------------------------------
    def table(self):
        return dict(self.server.sockets)

    def teardown(self):
        try:
            if self.server.service_task_event is not None:
                self.server.service_task_event.set()
            for r in self.reqs:
                if not r._gone.done():
                    r._gone.set_result(None)
            self.loop.run_until_idle(0.0)
        except BaseException:
            pass
