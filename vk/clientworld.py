"""Client harnesses: the real Client / AsyncClient talking to the real server of the same kind
through fake `requests` / `websocket-client` / aiohttp-session objects that route into the
world's gateways (DESIGN.md 2.4). Faults are injected at the client's I/O boundary by a script."""
import asyncio
import json
import types
import urllib.parse

from . import sched as vsched
from .aworld import AWorld, SilentLogger
from .tworld import TWorld


# ---------------------------------------------------------------------------------------------
# fault script
# ---------------------------------------------------------------------------------------------
class Faults:
    """faults: list of dicts {'on': 'http'|'ws-connect'|'ws-recv'|'ws-send', 'n': ordinal,
    'kind': ...}. Ordinals count events of that kind from 0 over the whole run."""

    def __init__(self, faults=()):
        self.faults = [dict(f) for f in faults]
        self.count = {}
        self.fired = []
        self.disabled = False

    def next(self, on):
        n = self.count.get(on, 0)
        self.count[on] = n + 1
        if self.disabled:
            return None
        for f in self.faults:
            if f['on'] == on and (f.get('n') == n or ('from' in f and n >= f['from'])):
                self.fired.append(dict(f, at=n))
                return f
        return None


def split_url(url):
    u = urllib.parse.urlsplit(url)
    return u.scheme, u.netloc, u.path, u.query


class ClientLog:
    def __init__(self, clock):
        self.clock = clock
        self.events = []            # (t, event, arg)
        self.http = []              # dicts
        self.ws = []                # dicts
        self.on_event = None

    def ev(self, event, arg=None):
        self.events.append((self.clock.now, event, arg))
        if self.on_event:
            return self.on_event(event, arg)       # may return an awaitable (asyncio client)


class Composite:
    """One clock, a baton scheduler and a virtual-time loop advanced together (DESIGN.md 2.4,
    hybrid world): threaded code runs under the scheduler, asyncio code on the loop, the harness
    thread alternates between them until both are quiet."""

    def __init__(self, clock, sched, loop):
        self.clock, self.sched, self.loop = clock, sched, loop
        self.waiters = []            # asyncio futures waiting for something threads produce
        self.conns = []              # WsConn objects whose asyncio-side waiters need waking

    def wake(self):
        ws, self.waiters = self.waiters, []
        for fut in ws:
            if not fut.done():
                fut.set_result(None)
        for c in self.conns:
            cw = getattr(c, '_client_waiters', None)
            if cw:
                c._client_waiters = []
                for fut in cw:
                    if not fut.done():
                        fut.set_result(None)

    def settle(self, pick=None):
        for _ in range(10000):
            self.sched.settle(pick)
            self.wake()
            self.loop.run_until_idle(0.0)
            if not self.sched.runnable():
                return
        raise RuntimeError('hybrid world livelock')

    def next_deadline(self):
        ds = [d for d in (self.sched.next_deadline(), self.loop.next_timer()) if d is not None]
        return min(ds) if ds else None

    def advance_to(self, t):
        for _ in range(1000000):
            self.settle()
            nd = self.next_deadline()
            if nd is None or nd > t:
                break
            self.sched.advance_to(nd)
            self.wake()
            self.loop.run_until(nd)
        self.sched.advance_to(t)
        self.loop.run_until(t)
        self.settle()

    def advance(self, dt):
        self.advance_to(self.clock.now + dt)


# ---------------------------------------------------------------------------------------------
# threaded client
# ---------------------------------------------------------------------------------------------
class RequestException(IOError):
    pass


class Timeout(RequestException):
    pass


class ReqConnectionError(RequestException):
    pass


class WebSocketException(Exception):
    pass


class WebSocketTimeoutException(WebSocketException):
    pass


class WebSocketBadStatusException(WebSocketException):
    """websocket-client: the handshake was answered with an HTTP error status."""

    def __init__(self, message, status_code=403, status_message=None, resp_headers=None):
        super().__init__(message)
        self.status_code = status_code
        self.resp_headers = resp_headers


class WebSocketConnectionClosedException(WebSocketException):
    pass


class FakeResponse:
    def __init__(self, status, content, headers=()):
        self.status_code = status
        self.content = content
        self.headers = dict(headers)

    def json(self):
        return json.loads(self.content.decode('utf-8'))


class TClientHarness:
    impl = 'thread'

    def __init__(self, server_config=None, faults=(), client_kwargs=None, ws_read_timeout=True,
                 latency=2.0 ** -6, app_kwargs=None, server='thread'):
        import engineio
        import engineio.client as ec
        self.latency = latency          # virtual time one HTTP round trip / WS connect takes
        self.comp = None
        if server == 'async':
            from . import clock as vclock
            clock = vclock.reset()
            self.sched = vsched.Sched(clock)
            vsched.set_sched(self.sched)
            self.world = AWorld(server_config, app_kwargs=app_kwargs, clock=clock)
            self.comp = Composite(clock, self.sched, self.world.loop)
        else:
            self.world = TWorld(server_config, ws_read_timeout=ws_read_timeout,
                                app_kwargs=app_kwargs)
            self.sched = self.world.sched
        self.clock = self.world.clock
        self.faults = Faults(faults)
        self.log = ClientLog(self.clock)
        h = self

        class Session:
            def __init__(self):
                self.cookies = []
                self.auth = None
                self.cert = None
                self.proxies = {}
                self.verify = True

            def request(self, method, url, headers=None, data=None, timeout=None):
                return h._http(method, url, headers or {}, data, timeout)

        rq = types.ModuleType('requests')
        rq.Session = Session
        rq.exceptions = types.SimpleNamespace(RequestException=RequestException, Timeout=Timeout,
                                              ConnectionError=ReqConnectionError)
        wsm = types.ModuleType('websocket')
        wsm.WebSocketException = WebSocketException
        wsm.WebSocketTimeoutException = WebSocketTimeoutException
        wsm.WebSocketBadStatusException = WebSocketBadStatusException
        wsm.WebSocketConnectionClosedException = WebSocketConnectionClosedException
        wsm.create_connection = self._ws_connect
        ec.requests = rq
        ec.websocket = wsm

        class VClient(engineio.Client):
            def start_background_task(self, target, *args, **kwargs):
                th = vsched.VThread(target=target, args=args, kwargs=kwargs)
                th.start()
                return th

            def create_queue(self, *args, **kwargs):
                q = vsched.VQueue()
                q.Empty = vsched.Empty
                return q

            def create_event(self, *args, **kwargs):
                return vsched.VEvent()

            def sleep(self, seconds=0):
                return vsched.vsleep(seconds)

        kw = dict(client_kwargs or {})
        kw.setdefault('logger', SilentLogger())
        kw.setdefault('handle_sigint', False)
        self.client = VClient(**kw)
        self.handler_delay = {}      # event -> virtual seconds the client's handler takes

        def slow(event, *a):
            try:
                return self.log.ev(event, *a)
            finally:
                d = self.handler_delay.get(event)
                if d:
                    vsched.vsleep(d)
        self.client.on('connect', lambda: slow('connect'))
        self.client.on('message', lambda d: slow('message', d))
        self.client.on('disconnect', lambda r: slow('disconnect', r))
        self.calls = []

    # -- fake requests ------------------------------------------------------------------------
    def _http(self, method, url, headers, data, timeout):
        scheme, netloc, path, query = split_url(url)
        rec = {'t': self.clock.now, 'method': method, 'url': url, 'scheme': scheme,
               'netloc': netloc, 'path': path, 'query': query, 'body': data,
               'headers': dict(headers), 'timeout': timeout}
        self.log.http.append(rec)
        f = self.faults.next('http')
        if f is None and method == 'POST':
            f = self.faults.next('http-post')       # faults addressed to the n-th POST
        if f:
            self.faults.fired[-1].update(method=method, t=self.clock.now,
                                         state=self.client.state, req_body=data)
        rec['fault'] = f['kind'] if f else None
        if self.latency:
            self.sched.block(lambda: False, self.latency, 'latency')
        if f and f['kind'] == 'lenient':
            # from here on the peer is a server that never gives up on a client: every GET is
            # answered with a PING after `every` seconds, every POST with ok (unless a fault
            # addressed to that POST says otherwise); the real server is not contacted
            rec['lenient'] = True
            if method == 'POST':
                pf = self.faults.next('http-post')
                if pf:
                    self.faults.fired[-1].update(method=method, t=self.clock.now,
                                                 state=self.client.state, req_body=data)
                    rec['fault'] = pf['kind']
                    if pf['kind'] in ('refuse', 'drop-after'):
                        raise ReqConnectionError('connection reset (scripted)')
                    rec['status'] = pf.get('status', 503)
                    return FakeResponse(rec['status'], pf.get('body', 'oops').encode(),
                                        [('Content-Type', pf.get('ctype', 'text/plain'))])
                rec['status'] = 200
                return FakeResponse(200, b'ok', [('Content-Type', 'text/plain')])
            every = f.get('every', 2.5)
            if timeout is not None and timeout < every:
                self.sched.block(lambda: False, timeout, 'lenient-get')
                raise Timeout('read timed out')
            self.sched.block(lambda: False, every, 'lenient-get')
            rec['status'] = 200
            return FakeResponse(200, b'2', [('Content-Type', 'text/plain; charset=UTF-8')])
        if f and f['kind'] == 'refuse':
            raise ReqConnectionError('connection refused (scripted)')
        body = data.encode('utf-8') if isinstance(data, str) else (data or b'')
        req = self.world.http(method, query, headers=list(headers.items()) + [('Host', netloc)],
                              body=body, path=path, scheme='https' if scheme == 'https' else 'http')
        rec['req'] = req
        if f and f['kind'] == 'hang':
            ok = self.sched.block(lambda: False, timeout, 'http-hang')
            raise Timeout('read timed out (scripted)')
        ok = self.sched.block(lambda: req.done, timeout, 'http')
        if not ok:
            self.world.client_gone(req)
            rec['timed_out'] = True
            raise Timeout('read timed out')
        if req.exc is not None:
            raise ReqConnectionError('connection aborted: %r' % (req.exc,))
        status, content, hdrs = req.status, req.resp_body or b'', req.resp_headers
        if f:
            k = f['kind']
            if k == 'drop-after':
                raise ReqConnectionError('connection reset (scripted)')
            if k == 'status':
                status, content = f.get('status', 503), f.get('body', 'oops').encode()
                hdrs = [('Content-Type', f.get('ctype', 'text/plain'))]
            elif k == 'garbage':
                self.faults.fired[-1]['orig_harmless'] = not any(
                    p[:1] in (b'2', b'1', b'0') for p in content.split(b'\x1e'))
                content = f.get('body', 'garbage').encode('utf-8', 'surrogatepass')
        rec['status'] = status
        rec['content'] = content
        return FakeResponse(status, content, hdrs)

    # -- fake websocket-client ---------------------------------------------------------------------
    def _ws_connect(self, url, **opts):
        scheme, netloc, path, query = split_url(url)
        rec = {'t': self.clock.now, 'url': url, 'scheme': scheme, 'netloc': netloc, 'path': path,
               'query': query, 'opts': {k: v for k, v in opts.items() if k != 'header'},
               'headers': dict(opts.get('header') or {}), 'sent': [], 'recv': []}
        self.log.ws.append(rec)
        f = self.faults.next('ws-connect')
        rec['fault'] = f['kind'] if f else None
        if self.latency:
            self.sched.block(lambda: False, self.latency, 'latency')
        if f and f['kind'] == 'refuse':
            raise WebSocketException('connection refused (scripted)')
        if f and f['kind'] == 'bad-status':
            raise WebSocketBadStatusException('Handshake status 403 Forbidden (scripted)', 403)
        conn = self.world.ws_open(query, headers=list((opts.get('header') or {}).items()) +
                                  [('Host', netloc)], path=path,
                                  scheme='https' if scheme == 'wss' else 'http')
        rec['conn'] = conn
        ok = self.sched.block(lambda: conn.accepted or conn.done or conn.rejected,
                              opts.get('timeout'), 'ws-connect')
        if not ok or not conn.accepted:
            raise WebSocketException('Handshake status %s' % (conn.http_status or 400))
        return FakeWS(self, conn, rec, opts.get('timeout'))

    # -- application side ----------------------------------------------------------------------------
    def client_call(self, name, *args, **kwargs):
        c = types.SimpleNamespace(name=name, args=args, done=False, exc=None, result=None,
                                  t_start=self.clock.now, t_end=None)

        def run():
            try:
                c.result = getattr(self.client, name)(*args, **kwargs)
            except vsched.VThreadKilled:
                raise
            except BaseException as e:      # noqa
                c.exc = e
            finally:
                c.done = True
                c.t_end = self.clock.now
        c._vt = self.sched.spawn(run, 'client-' + name)
        self.calls.append(c)
        return c

    def settle(self):
        (self.comp or self.world).settle()

    def advance(self, dt):
        (self.comp or self.world).advance(dt)

    def advance_to(self, t):
        (self.comp or self.world).advance_to(t)

    def next_deadline(self):
        return (self.comp or self.world).next_deadline()


    def run_until(self, pred, max_dt):
        """Let virtual time pass, deadline by deadline, until pred() or max_dt has elapsed."""
        limit = self.clock.now + max_dt
        for _ in range(200000):
            self.settle()
            if pred():
                return True
            nd = self.next_deadline()
            if nd is None or nd > limit:
                break
            self.advance_to(nd)
        self.advance_to(limit)
        self.settle()
        return pred()

    def teardown(self):
        self.world.teardown()


class FakeWS:
    def __init__(self, h, conn, rec, timeout):
        self.h, self.conn, self.rec = h, conn, rec
        self.timeout = timeout
        self.cursor = 0
        self.closed = False
        self.dropped = False
        self.silent = False

    @property
    def connected(self):
        return not (self.closed or self.dropped or self.conn.server_closed or self.conn.done)

    def settimeout(self, t):
        self.timeout = t

    def _send(self, data):
        f = self.h.faults.next('ws-send')
        if f and f['kind'] == 'drop':
            self.dropped = True
            self.h.world.ws_fail(self.conn)
        if self.closed or self.dropped or self.conn.server_closed or self.conn.done:
            raise WebSocketConnectionClosedException('socket is already closed')
        self.rec['sent'].append((self.h.clock.now, data))
        self.h.world.ws_client_send(self.conn, data)

    def send(self, payload):
        # websocket-client: send() writes a TEXT frame whatever it is given
        if not isinstance(payload, str):
            payload = bytes(payload).decode('utf-8', 'replace')
        self._send(payload)

    def send_binary(self, payload):
        self._send(bytes(payload))

    def recv(self):
        c = self.conn
        t0 = self.h.clock.now
        while True:
            if self.closed or self.dropped:
                raise WebSocketConnectionClosedException('closed')
            left = None if self.timeout is None else self.timeout - (self.h.clock.now - t0)
            if left is not None and left <= 0:
                raise WebSocketTimeoutException('timed out')
            ok = self.h.sched.block(
                lambda: self.closed or self.dropped or (not self.silent and (
                    len(c.sent) > self.cursor or c.server_closed or c.done)),
                left, 'ws-recv')
            if not ok:
                raise WebSocketTimeoutException('timed out')
            if self.closed or self.dropped:
                raise WebSocketConnectionClosedException('closed')
            if len(c.sent) > self.cursor:
                frame = c.sent[self.cursor][1]
                if isinstance(frame, (bytearray, memoryview)):
                    frame = bytes(frame)        # what arrives from a network is bytes
                self.cursor += 1
                f = self.h.faults.next('ws-recv')
                if f:
                    k = f['kind']
                    if k == 'drop':
                        self.dropped = True
                        self.h.world.ws_fail(c)
                        raise WebSocketConnectionClosedException('connection lost (scripted)')
                    if k == 'replace':
                        self.h.faults.fired[-1]['orig_harmless'] = isinstance(frame, bytes) or \
                            frame[:1] in ('4', '6')
                        frame = f.get('frame', '6')
                    elif k == 'swallow':
                        continue
                    elif k == 'silence':
                        self.silent = True   # nothing more is ever received, not even a close
                        continue
                self.rec['recv'].append((self.h.clock.now, frame))
                return frame
            raise WebSocketConnectionClosedException('connection closed')

    def close(self):
        if not self.closed:
            self.closed = True
            self.h.world.ws_client_close(self.conn)


# ---------------------------------------------------------------------------------------------
# asyncio client
# ---------------------------------------------------------------------------------------------
class AClientHarness:
    impl = 'async'

    def __init__(self, server_config=None, faults=(), client_kwargs=None, latency=2.0 ** -6,
                 app_kwargs=None, server='async', own_session=False):
        import engineio
        self.latency = latency
        self.comp = None
        if server == 'thread':
            from . import clock as vclock
            from .vloop import VLoop
            clock = vclock.reset()
            self.loop = VLoop(clock)
            self.world = TWorld(server_config, app_kwargs=app_kwargs, clock=clock,
                                ws_read_timeout=True)
            self.comp = Composite(clock, self.world.sched, self.loop)
        else:
            self.world = AWorld(server_config, app_kwargs=app_kwargs)
            self.loop = self.world.loop
        self.clock = self.world.clock
        self.faults = Faults(faults)
        self.log = ClientLog(self.clock)
        kw = dict(client_kwargs or {})
        kw.setdefault('logger', SilentLogger())
        kw.setdefault('handle_sigint', False)
        self.session = FakeAioSession(self)
        if own_session:
            # the client creates (and, at the end of every connection, closes) its own session:
            # aiohttp.ClientSession() as seen by the client module yields our fake
            import engineio.async_client as eac
            import aiohttp as real_aiohttp
            fake_mod = types.ModuleType('aiohttp')
            fake_mod.__dict__.update(real_aiohttp.__dict__)
            fake_mod.ClientSession = lambda *a, **k: FakeAioSession(self)
            self._eac, self._real_aiohttp = eac, eac.aiohttp
            eac.aiohttp = fake_mod
            self.client = engineio.AsyncClient(**kw)
        else:
            self.client = engineio.AsyncClient(http_session=self.session, **kw)

        self.handler_delay = {}      # event -> virtual seconds the client's handler takes

        async def nap(event):
            d = self.handler_delay.get(event)
            if d:
                await asyncio.sleep(d)

        async def on_connect():
            try:
                r = self.log.ev('connect')
                if asyncio.iscoroutine(r):
                    await r
            finally:
                await nap('connect')

        async def on_message(d):
            try:
                r = self.log.ev('message', d)
                if asyncio.iscoroutine(r):
                    await r
            finally:
                await nap('message')

        async def on_disconnect(reason):
            try:
                r = self.log.ev('disconnect', reason)
                if asyncio.iscoroutine(r):
                    await r
            finally:
                await nap('disconnect')
        self.client.on('connect', on_connect)
        self.client.on('message', on_message)
        self.client.on('disconnect', on_disconnect)
        self.calls = []

    async def wait_threads(self, pred):
        """(hybrid world) wait on the loop for something the scheduled threads produce."""
        while not pred():
            fut = self.loop.create_future()
            self.comp.waiters.append(fut)
            await fut

    def client_call(self, name, *args, **kwargs):
        c = types.SimpleNamespace(name=name, args=args, done=False, exc=None, result=None,
                                  t_start=self.clock.now, t_end=None)

        async def run():
            try:
                r = getattr(self.client, name)(*args, **kwargs)
                if asyncio.iscoroutine(r) or isinstance(r, asyncio.Future):
                    r = await r
                c.result = r
            except BaseException as e:      # noqa
                c.exc = e
            finally:
                c.done = True
                c.t_end = self.clock.now
        c._task = self.loop.create_task(run())
        self.calls.append(c)
        return c

    def settle(self):
        (self.comp or self.world).settle()

    def advance(self, dt):
        (self.comp or self.world).advance(dt)

    def advance_to(self, t):
        (self.comp or self.world).advance_to(t)

    def next_deadline(self):
        return (self.comp or self.world).next_deadline()


    def run_until(self, pred, max_dt):
        """Let virtual time pass, deadline by deadline, until pred() or max_dt has elapsed."""
        limit = self.clock.now + max_dt
        for _ in range(200000):
            self.settle()
            if pred():
                return True
            nd = self.next_deadline()
            if nd is None or nd > limit:
                break
            self.advance_to(nd)
        self.advance_to(limit)
        self.settle()
        return pred()

    def teardown(self):
        if getattr(self, '_eac', None) is not None:
            self._eac.aiohttp = self._real_aiohttp      # undo the module patch
        self.world.teardown()


class FakeAioResponse:
    def __init__(self, status, content, headers):
        self.status = status
        self._content = content
        self.headers = dict(headers)

    async def read(self):
        return self._content

    async def json(self):
        import aiohttp
        ct = ''
        for k, v in self.headers.items():
            if k.lower() == 'content-type':
                ct = v
        if 'json' not in ct:
            raise aiohttp.ClientError('unexpected mimetype: %s' % ct)
        return json.loads(self._content.decode('utf-8'))


class FakeAioSession:
    def __init__(self, h):
        self.h = h
        self.closed = False
        self.cookie_jar = types.SimpleNamespace(update_cookies=lambda c: None)

    async def close(self):
        self.closed = True

    async def get(self, url, **kw):
        return await self._http('GET', url, **kw)

    async def post(self, url, **kw):
        return await self._http('POST', url, **kw)

    async def _http(self, method, url, headers=None, data=None, timeout=None, ssl=None):
        import aiohttp
        if self.closed:
            raise RuntimeError('Session is closed')
        h = self.h
        total = getattr(timeout, 'total', timeout)
        scheme, netloc, path, query = split_url(url)
        rec = {'t': h.clock.now, 'method': method, 'url': url, 'scheme': scheme, 'netloc': netloc,
               'path': path, 'query': query, 'body': data, 'headers': dict(headers or {}),
               'timeout': total}
        h.log.http.append(rec)
        f = h.faults.next('http')
        if f is None and method == 'POST':
            f = h.faults.next('http-post')          # faults addressed to the n-th POST
        if f:
            h.faults.fired[-1].update(method=method, t=h.clock.now, state=h.client.state,
                                      req_body=data)
        rec['fault'] = f['kind'] if f else None
        if h.latency:
            await asyncio.sleep(h.latency)
        if f and f['kind'] == 'lenient':
            # (see TClientHarness._http)
            rec['lenient'] = True
            if method == 'POST':
                pf = h.faults.next('http-post')
                if pf:
                    h.faults.fired[-1].update(method=method, t=h.clock.now, state=h.client.state,
                                              req_body=data)
                    rec['fault'] = pf['kind']
                    if pf['kind'] in ('refuse', 'drop-after'):
                        raise aiohttp.ServerDisconnectedError('connection reset (scripted)')
                    rec['status'] = pf.get('status', 503)
                    return FakeAioResponse(rec['status'], pf.get('body', 'oops').encode(),
                                           [('Content-Type', pf.get('ctype', 'text/plain'))])
                rec['status'] = 200
                return FakeAioResponse(200, b'ok', [('Content-Type', 'text/plain')])
            every = f.get('every', 2.5)
            if total is not None and total < every:
                await asyncio.sleep(total)
                raise asyncio.TimeoutError()
            await asyncio.sleep(every)
            rec['status'] = 200
            return FakeAioResponse(200, b'2', [('Content-Type', 'text/plain; charset=UTF-8')])
        if f and f['kind'] == 'refuse':
            raise aiohttp.ClientConnectionError('connection refused (scripted)')
        body = data.encode('utf-8') if isinstance(data, str) else (data or b'')
        req = h.world.http(method, query, headers=list((headers or {}).items()) + [('Host', netloc)],
                           body=body, path=path, scheme='http')
        rec['req'] = req
        if f and f['kind'] == 'hang':
            await asyncio.sleep(total if total is not None else 10 ** 6)
            raise asyncio.TimeoutError()
        try:
            if hasattr(req, '_task'):
                await asyncio.wait_for(asyncio.shield(req._task), total)
            else:
                await asyncio.wait_for(h.wait_threads(lambda: req.done), total)
        except asyncio.TimeoutError:
            h.world.client_gone(req)
            rec['timed_out'] = True
            raise
        if req.exc is not None:
            raise aiohttp.ServerDisconnectedError('connection aborted: %r' % (req.exc,))
        status, content, hdrs = req.status, req.resp_body or b'', req.resp_headers
        if f:
            k = f['kind']
            if k == 'drop-after':
                raise aiohttp.ServerDisconnectedError('connection reset (scripted)')
            if k == 'status':
                status, content = f.get('status', 503), f.get('body', 'oops').encode()
                hdrs = [('Content-Type', f.get('ctype', 'text/plain'))]
            elif k == 'garbage':
                h.faults.fired[-1]['orig_harmless'] = not any(
                    p[:1] in (b'2', b'1', b'0') for p in content.split(b'\x1e'))
                content = f.get('body', 'garbage').encode('utf-8', 'surrogatepass')
        rec['status'] = status
        rec['content'] = content
        return FakeAioResponse(status, content, hdrs)

    async def ws_connect(self, url, headers=None, timeout=None, ssl=None, **extra):
        import aiohttp
        if self.closed:
            raise RuntimeError('Session is closed')
        h = self.h
        scheme, netloc, path, query = split_url(url)
        rec = {'t': h.clock.now, 'url': url, 'scheme': scheme, 'netloc': netloc, 'path': path,
               'query': query, 'headers': dict(headers or {}), 'opts': dict(extra), 'sent': [],
               'recv': []}
        h.log.ws.append(rec)
        f = h.faults.next('ws-connect')
        rec['fault'] = f['kind'] if f else None
        if h.latency:
            await asyncio.sleep(h.latency)
        if f and f['kind'] == 'refuse':
            raise aiohttp.ClientConnectionError('connection refused (scripted)')
        if f and f['kind'] == 'bad-status':
            # aiohttp: the server answered the handshake with an HTTP error status
            import multidict
            import yarl
            ri = aiohttp.RequestInfo(yarl.URL(url), 'GET',
                                     multidict.CIMultiDictProxy(multidict.CIMultiDict()),
                                     yarl.URL(url))
            raise aiohttp.WSServerHandshakeError(ri, (), status=403,
                                                 message='Invalid response status (scripted)')
        conn = h.world.ws_open(query, headers=list((headers or {}).items()) + [('Host', netloc)],
                               path=path, scheme='ws' if h.comp is None else 'http')
        rec['conn'] = conn
        if h.comp is not None:
            h.comp.conns.append(conn)
        ws = FakeAioWS(h, conn, rec)
        total = getattr(timeout, 'total', timeout)
        try:
            await asyncio.wait_for(ws._wait(lambda: conn.accepted or conn.done or conn.rejected),
                                   total)
        except asyncio.TimeoutError:
            raise aiohttp.ServerConnectionError('handshake timed out')
        if not conn.accepted:
            raise aiohttp.ClientConnectionError('handshake refused')
        return ws


class FakeAioWS:
    def __init__(self, h, conn, rec):
        self.h, self.conn, self.rec = h, conn, rec
        self.cursor = 0
        self.closed = False
        self.dropped = False
        self.silent = False

    async def _wait(self, pred):
        # poll at every loop turn without letting virtual time pass on its own
        while not pred():
            fut = self.h.loop.create_future()
            self.conn._client_waiters = getattr(self.conn, '_client_waiters', [])
            self.conn._client_waiters.append(fut)
            await fut

    async def _send(self, data):
        import aiohttp
        f = self.h.faults.next('ws-send')
        if f and f['kind'] == 'drop':
            self.dropped = True
            self.h.world.ws_fail(self.conn)
        if self.closed or self.dropped or self.conn.server_closed or self.conn.done:
            raise aiohttp.ServerDisconnectedError('socket is closed')
        self.rec['sent'].append((self.h.clock.now, data))
        self.h.world.ws_client_send(self.conn, data)

    async def send_str(self, data):
        if not isinstance(data, str):
            raise TypeError('data argument must be str (%r)' % type(data))
        await self._send(data)

    async def send_bytes(self, data):
        if not isinstance(data, (bytes, bytearray, memoryview)):
            raise TypeError('data argument must be byte-ish (%r)' % type(data))
        await self._send(bytes(data))

    async def receive(self):
        import aiohttp
        c = self.conn
        if self.closed or self.dropped:
            return aiohttp.WSMessage(aiohttp.WSMsgType.CLOSED, None, None)
        await self._wait(lambda: self.closed or self.dropped or (not self.silent and (
            len(c.sent) > self.cursor or c.server_closed or c.done)))
        if len(c.sent) > self.cursor:
            frame = c.sent[self.cursor][1]
            if isinstance(frame, (bytearray, memoryview)):
                frame = bytes(frame)            # what arrives from a network is bytes
            self.cursor += 1
            f = self.h.faults.next('ws-recv')
            if f:
                k = f['kind']
                if k == 'drop':
                    self.dropped = True
                    self.h.world.ws_fail(c)
                    return aiohttp.WSMessage(aiohttp.WSMsgType.CLOSED, None, None)
                if k == 'replace':
                    self.h.faults.fired[-1]['orig_harmless'] = isinstance(frame, bytes) or \
                        frame[:1] in ('4', '6')
                    frame = f.get('frame', '6')
                elif k == 'swallow':
                    return await self.receive()
                elif k == 'silence':
                    self.silent = True
                    return await self.receive()
            self.rec['recv'].append((self.h.clock.now, frame))
            t = aiohttp.WSMsgType.BINARY if isinstance(frame, (bytes, bytearray)) \
                else aiohttp.WSMsgType.TEXT
            return aiohttp.WSMessage(t, frame, None)
        return aiohttp.WSMessage(aiohttp.WSMsgType.CLOSED, None, None)

    async def close(self):
        if not self.closed:
            self.closed = True
            self.h.world.ws_client_close(self.conn)
            self._wake()

    def _wake(self):
        for fut in getattr(self.conn, '_client_waiters', []):
            if not fut.done():
                fut.set_result(None)
        self.conn._client_waiters = []
