"""Virtual clock (DESIGN.md 2.1). One current clock per process; engineio's `time` module
attribute is rebound to a shim that reads it."""
import types

EPOCH = float(2 ** 20)
TICK = 2.0 ** -10


class Clock:
    def __init__(self):
        self.now = EPOCH

    def rel(self):
        return self.now - EPOCH


_current = Clock()


def current():
    return _current


def reset():
    global _current
    _current = Clock()
    return _current


def _time():
    return _current.now


shim = types.ModuleType('verif_time_shim')
shim.time = _time
shim.monotonic = _time


def _sleep_forbidden(*a, **k):   # nothing under test may really sleep
    raise RuntimeError('real time.sleep called under the virtual clock')


shim.sleep = _sleep_forbidden

_patched = False


def patch_engineio_time():
    """Rebind `time` in the engineio modules that read the clock (harness process only)."""
    global _patched
    if _patched:
        return
    import engineio.socket
    import engineio.async_socket
    import engineio.base_client
    import engineio.client
    import engineio.async_client
    for m in (engineio.socket, engineio.async_socket, engineio.base_client, engineio.client,
              engineio.async_client):
        if hasattr(m, 'time'):
            m.time = shim
    _patched = True
