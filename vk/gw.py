"""Gateway-side records shared by both worlds: HTTP request records, WebSocket connection
records and the WSGI/ASGI contract validators (DESIGN.md 2.4)."""
import re

STATUS_RE = re.compile(r'^\d{3} \S.*$')


class Req:
    """One HTTP request as seen by the gateway."""

    def __init__(self, world, method, path, query, headers, body, declared_length, kind='http'):
        self.world = world
        self.method, self.path, self.query = method, path, query
        self.headers = headers          # list of (name, value)
        self.body = body
        self.declared_length = declared_length
        self.kind = kind
        self.t_start = world.clock.now
        self.t_end = None
        self.done = False               # the gateway call returned (or raised)
        self.exc = None                 # exception that escaped the gateway call
        self.status = None              # int
        self.status_line = None
        self.resp_headers = []          # list of (str, str)
        self.resp_body = None           # bytes
        self.contract = []              # gateway-contract violations (strings)
        self.reads = []                 # sizes passed to wsgi.input.read
        self.bytes_pulled = 0           # ASGI: request body bytes pulled through receive()
        self.pulls = []                 # ASGI: bytes held before each receive() call
        self.start_calls = 0
        self.tolerated = []

    def header(self, name):
        name = name.lower()
        vals = [v for k, v in self.resp_headers if k.lower() == name]
        return vals[0] if vals else None

    def header_all(self, name):
        name = name.lower()
        return [v for k, v in self.resp_headers if k.lower() == name]

    def __repr__(self):
        return '<Req %s ?%s done=%s status=%s exc=%r>' % (
            self.method, self.query, self.done, self.status, self.exc)


class GatewayWriteError(Exception):
    """What a WebSocket library may raise from a write on a dead connection when it is neither
    an OSError nor a RuntimeError (protocol-state errors of wsproto / h11 style)."""


def write_error(conn, msg):
    kind = getattr(conn, 'fail_exc', None)
    if kind == 'RuntimeError':
        return RuntimeError(msg)
    if kind == 'Exception':
        return GatewayWriteError(msg)
    return OSError(msg)


class WsConn:
    """One WebSocket connection as seen by the gateway / the simulated peer."""

    def __init__(self, world, query, headers):
        self.world = world
        self.query, self.headers = query, headers
        self.t_start = world.clock.now
        self.accepted = False
        self.rejected = False           # closed/refused before accept
        self.http_status = None         # WSGI world: a plain HTTP answer instead of a handshake
        self.resp_headers = []
        self.resp_body = None
        self.server_closed = False      # server called close
        self.peer_closed = False        # client closed
        self.failed = False             # transport fault injected
        self.inbox = []                 # frames client->server not yet read
        self.sent = []                  # (vtime, frame) server->client
        self.done = False               # handler / gateway call returned
        self.exc = None
        self.contract = []
        self.tolerated = []
        self.read_timeout = None        # threaded: driver socket timeout, virtual seconds
        self.handshake_seen = []        # frames the server read, in order

    def frames(self):
        return [f for _, f in self.sent]

    def __repr__(self):
        return '<WsConn ?%s acc=%s done=%s sent=%d exc=%r>' % (
            self.query, self.accepted, self.done, len(self.sent), self.exc)


class Call:
    """One application-facing API call (send / disconnect / session ops)."""

    def __init__(self, world, name, args):
        self.world = world
        self.name, self.args = name, args
        self.t_start = world.clock.now
        self.t_end = None
        self.done = False
        self.exc = None
        self.result = None

    def __repr__(self):
        return '<Call %s%r done=%s exc=%r>' % (self.name, self.args, self.done, self.exc)


def check_wsgi_start(req, status, headers, exc_info=None):
    req.start_calls += 1
    if req.start_calls > 1 and exc_info is None:
        req.contract.append('start_response called %d times' % req.start_calls)
    if not isinstance(status, str) or not STATUS_RE.match(status):
        req.contract.append('bad status line %r' % (status,))
    if not isinstance(headers, list):
        req.contract.append('headers not a list: %r' % type(headers).__name__)
    else:
        for h in headers:
            if not (isinstance(h, tuple) and len(h) == 2 and isinstance(h[0], str)
                    and isinstance(h[1], str)):
                req.contract.append('header not a (str, str) tuple: %r' % (h,))
            elif any(c in h[0] + h[1] for c in '\r\n'):
                req.contract.append('header contains CR/LF: %r' % (h,))


def check_wsgi_body(req, ret):
    try:
        it = iter(ret)
    except TypeError:
        req.contract.append('body is not iterable: %r' % (ret,))
        return b''
    chunks = []
    if isinstance(ret, (bytes, str)):
        req.contract.append('body is a bare %s, not an iterable of bytes' % type(ret).__name__)
        return ret if isinstance(ret, bytes) else b''
    for c in it:
        if not isinstance(c, bytes):
            req.contract.append('body chunk is %s, not bytes' % type(c).__name__)
        else:
            chunks.append(c)
    return b''.join(chunks)
