"""Driver shared by the history properties: draw configuration and actions with Hypothesis,
execute them through machine.Exec, run the property's monitors after every step and after
drain(); the executed trace is the replay case."""
from hypothesis import strategies as st

from .machine import Exec, Drawer, config_st
from .runner import Violation, run_given
from .watchdog import BusyLoop


def busy_violation(prop, ex, e):
    """Library code that spins for ever while serving a step: the step never completes."""
    a = ex.actions[-1] if ex.actions else {'op': 'drain'}
    return Violation(prop, ex.impl, 'step-never-completes', 'busy-loop|' + a.get('op', '?'),
                     'while executing %r: %s' % (short(a), e))


def run_trace(prop, case, monitors, on_done=None, world_kw=None):
    """Execute a stored/generated trace. Raises Violation (with .case set)."""
    ex = Exec(case['impl'], case['config'], world_kw or case.get('world_kw'))
    try:
        try:
            for a in case['actions']:
                ex.do(dict(a))
                for m in monitors:
                    m(ex, False)
            if case.get('drain', True):
                ex.drain(case.get('horizon'), case.get('keep_policies', False))
                for m in monitors:
                    m(ex, True)
        except Violation as v:
            v.case = dict(case, actions=list(ex.actions))
            raise
        except BusyLoop as e:
            v = busy_violation(prop, ex, e)
            v.case = dict(case, actions=list(ex.actions))
            raise v
        if on_done:
            on_done(ex)
    finally:
        ex.close()


def history_property(ctx, prop, profile, monitors, summarize, max_examples, steps,
                     impls=('thread', 'async'), world_kw=None):
    """summarize(ex) -> (rep_extra, nontrivial: bool, classes: list)."""
    cfg_st = config_st(profile.get('config', {}))

    def body(data):
        impl = data.draw(st.sampled_from(list(impls)), label='impl')
        config = data.draw(cfg_st, label='config')
        nsteps = data.draw(st.integers(min(4, steps), steps), label='nsteps')
        case = {'impl': impl, 'config': config, 'actions': []}
        wkw = dict(world_kw or {})
        if profile.get('world_kw_st') is not None:
            wkw.update(data.draw(profile['world_kw_st'], label='world_kw'))
        if wkw:
            case['world_kw'] = wkw
        ex = Exec(impl, config, wkw or None)
        try:
            try:
                dr = Drawer(data.draw, ex, profile)
                for a in profile.get('prelude', lambda d, e: [])(data.draw, ex):
                    ex.do(a)
                    for m in monitors:
                        m(ex, False)
                for _ in range(nsteps):
                    a = dr.next_action()
                    ex.do(a)
                    for m in monitors:
                        m(ex, False)
                ex.drain(profile.get('horizon'), profile.get('keep_policies', False))
                for m in monitors:
                    m(ex, True)
            except (Violation, BusyLoop) as v:
                if isinstance(v, BusyLoop):
                    v = busy_violation(prop, ex, v)
                case['actions'] = list(ex.actions)
                if profile.get('horizon') is not None:
                    case['horizon'] = profile['horizon']
                if profile.get('keep_policies'):
                    case['keep_policies'] = True
                v.case = case
                raise v
            extra, nt, classes = summarize(ex)
            rep = {'impl': impl, 'config': config,
                   'ops': [short(a) for a in ex.actions], 'obs': extra}
            ctx.case(rep, nt, [impl] + list(classes))
        finally:
            ex.close()

    run_given(ctx, st.data(), body, max_examples=max_examples)


def short(a):
    op = a['op']
    bits = [op]
    if 's' in a and a['s'] is not None:
        bits.append('s%d' % a['s'])
    if op == 'advance':
        bits.append('%g' % a['dt'])
    if op == 'ws_send':
        bits.append(a.get('sock', 'main'))
        f = a['frame']
        bits.append(f['v'][:12] if f['t'] == 'text' else 'bin')
    if op == 'post':
        if a.get('raw') is not None:
            bits.append('raw')
        else:
            bits.append(''.join(str(p[0]) for p in a['pkts']))
    if op == 'open':
        bits.append(a.get('transport', 'polling')[:2])
    if a.get('settle') is False:
        bits.append('nosettle')
    return ':'.join(bits)
