"""Shared session-history machine (DESIGN.md 3): action executor over a World, client-side
model, Hypothesis action drawing. Every action is a JSON-able dict; the executor that the
generator drives is the same one that replays a stored trace."""
import json
import re

from hypothesis import strategies as st

from . import refmodel as rm
from .clock import EPOCH, TICK

SEP = '\x1e'


def make_world(impl, config, **kw):
    cfg = dict(config)
    pi = cfg.get('ping_interval')
    if isinstance(pi, list):
        cfg['ping_interval'] = tuple(pi)
    if impl == 'thread':
        from .tworld import TWorld
        return TWorld(cfg, **kw)
    from .aworld import AWorld
    return AWorld(cfg, **kw)


def parse_payload(text):
    """Reference decoding of a polling response body -> list of (ptype|None, payload, raw)."""
    out = []
    if text == '':
        return out
    for piece in text.split(SEP):
        r = rm.ref_decode_packet(piece)
        if r[0] == 'ok':
            out.append((r[1], r[2][0] if len(r[2]) == 1 else r[2][-1], piece))
        else:
            out.append((None, piece, piece))
    return out


def parse_frame(frame):
    r = rm.ref_decode_packet(frame)
    if r[0] == 'ok':
        return (r[1], r[2][0] if len(r[2]) == 1 else r[2][-1], frame)
    return (None, frame, frame)


TAG_RE = re.compile(r'[SC]\d+\.\d+~')


def find_tag(v):
    if isinstance(v, (bytes, bytearray)):
        m = re.match(rb'[SC]\d+\.\d+~', bytes(v))
        return m.group(0).decode() if m else None
    if isinstance(v, str):
        m = TAG_RE.match(v)
        return m.group(0) if m else None
    if isinstance(v, dict):
        t = v.get('tag')
        return t if isinstance(t, str) else None
    if isinstance(v, list) and v and isinstance(v[0], str):
        m = TAG_RE.match(v[0])
        return m.group(0) if m else None
    return None


class Sess:
    def __init__(self, ord_, kind):
        self.ord = ord_
        self.kind = kind                 # 'polling' | 'websocket' (how it was opened)
        self.sid = None
        self.open_req = None
        self.open_conn = None
        self.outcome = None              # scripted connect outcome or None (= accept)
        self.expect_accept = True
        self.open_info = None            # dict of the OPEN packet
        self.main_ws = None              # established WebSocket (ws-first, or completed upgrade)
        self.upg = None                  # upgrade socket (latest attempt)
        self.upg_attempts = []           # [dict(conn, frames=[...], closed=...)]
        self.polls, self.posts = [], []
        self.received = []               # (t, via, ptype, payload, where)
        self.pings = []                  # times at which a PING was received
        self.pongs = []                  # times at which the client sent a PONG
        self.ping_pending = False
        self.pongs_unsolicited = []      # times of PONGs sent while no PING was outstanding
        self.vanished = False
        self.autopong = False
        self.autopoll = False
        self.client_closed = False       # the client has seen the session end
        self.app_sent = []               # (t, tag, tagged-data, call)
        self.client_sent = []            # see Exec.post / ws_send
        self.causes = []                 # end causes injected: dict(t, cause, settled)
        self.saved = None                # user session data the model believes is saved
        self.jsonp = None                # JSONP index this polling client uses (None: plain)
        self.accept_encoding = None      # Accept-Encoding this polling client sends
        self._cursor = {}                # id(conn) -> frames processed

    def label(self):
        return 's%d' % self.ord


class Exec:
    """Executes actions against one world and keeps the client-side model."""

    def __init__(self, impl, config, world_kw=None):
        self.impl = impl
        self.config = config
        self.world = make_world(impl, config, **(world_kw or {}))
        self.sessions = []
        self.actions = []
        self.seq = 0
        self.cseq = 0
        self.raw_reqs = []
        self.dead_sends = []
        self.steps = []                  # per action: dict(t, a)
        self.I = self.world.server.ping_interval
        self.T = self.world.server.ping_timeout
        self.quiet_points = []
        self._picks = []
        self._pick_i = 0
        self._quiet_now = True
        self.client_timers = []          # [(time, seq, fn)] simulated-client timers
        if impl == 'thread':
            self.world.pick = self._pick
        self.echo_n = 0
        self.world.app_log.react = self._react

    # -- things the application's message handler does itself ------------------------------------
    def _react(self, event, sid, data):
        """A message 'C<i>.<n>~!echo...' makes the handler send a reply to the same session before
        it returns; 'C<i>.<n>~!bye...' makes it call disconnect(sid).  The model records them like
        the corresponding application actions."""
        if event == 'disconnect':
            # (world option farewell) the disconnect handler sends a last message to the session
            o = self.ord_of_sid(sid)
            s = next((x for x in self.sessions if x.ord == o), None)
            if s is None:
                return []
            from .aworld import HandlerCall
            # (a tag that does not depend on the order in which sessions end)
            reply = 'S%d.200000~farewell' % s.ord
            rec = HandlerCall('send', (sid, reply), self.now)
            rec.sess = s
            s.app_sent.append({'t': self.now, 'tag': find_tag(reply), 'data': reply, 'call': rec,
                               'step': len(self.actions), 'target_state': None, 'settled': False,
                               'after': set(x['tag'] for x in s.app_sent if x['call'].done),
                               'upg_state': self.upg_state(s), 'in_handler': True,
                               'from_disconnect_handler': True,
                               'poll_pending': any(not q.done for q in s.polls)})
            return [('send', reply, rec)]
        if event != 'message' or not isinstance(data, str):
            return []
        m = re.match(r'C(\d+)\.(\d+)~!(echo|bye)', data)
        if not m:
            return []
        o = self.ord_of_sid(sid)
        s = next((x for x in self.sessions if x.ord == o), None)
        if s is None:
            return []
        from .aworld import HandlerCall
        if m.group(3) == 'echo':
            self.echo_n += 1
            reply = 'S%d.%d~re:%s%s' % (s.ord, 100000 + self.echo_n, m.group(2), data[m.end():])
            rec = HandlerCall('send', (sid, reply), self.now)
            rec.sess = s
            s.app_sent.append({'t': self.now, 'tag': find_tag(reply), 'data': reply, 'call': rec,
                               'step': len(self.actions), 'target_state': None, 'settled': False,
                               'after': set(x['tag'] for x in s.app_sent if x['call'].done),
                               'upg_state': self.upg_state(s), 'in_handler': True,
                               'unencodable': any(0xd800 <= ord(ch) <= 0xdfff for ch in reply),
                               'poll_pending': any(not q.done for q in s.polls)})
            return [('send', reply, rec)]
        rec = HandlerCall('disconnect', (sid,), self.now)
        rec.sess = s
        s.causes.append({'t': self.now, 'cause': 'api', 'call': rec, 'step': len(self.actions),
                         'det': None, 'in_handler': True})
        return [('disconnect', rec)]

    # -- scheduling choices (thread world) ---------------------------------------------------
    def _pick(self, runnable):
        if not self._picks:
            return 0
        c = self._picks[self._pick_i % len(self._picks)]
        self._pick_i += 1
        return c % len(runnable)

    # -- helpers -----------------------------------------------------------------------------------
    @property
    def now(self):
        return self.world.clock.now

    def sess(self, i):
        if i is None or not self.sessions:
            return None
        return self.sessions[i % len(self.sessions)]

    def sid_of(self, s):
        if s.sid is None:
            s.sid = self.world.app_log.ord_sid.get(s.ord)
        return s.sid

    def event_steps_for(self, s):
        sid = self.sid_of(s)
        al = self.world.app_log
        return [st for (t, e, x, a), st in zip(al.events, al.steps) if x == sid]

    def ord_of_sid(self, sid):
        return self.world.app_log.sid_ord.get(sid)

    def events_for(self, s):
        sid = self.sid_of(s)
        return [(t, e, a) for (t, e, x, a) in self.world.app_log.events if x == sid]

    # -- harvesting what the client received --------------------------------------------------
    def _promote(self, s):
        """Client-side view: the upgrade socket becomes the session's transport once the client
        has sent PING probe, seen PONG probe and sent UPGRADE on it (and it is still open)."""
        if s.upg is None or s.main_ws is not None or not self._quiet_now:
            return
        att = [x for x in s.upg_attempts if x['conn'] is s.upg]
        if not att:
            return
        fr = [f for _, f in att[0]['frames']]
        conn = s.upg
        if fr[:2] == ['2probe', '5'] and '3probe' in conn.frames() and not conn.done \
                and not conn.peer_closed and not conn.failed:
            s.main_ws = conn
            s.upg = None
            att[0]['promoted'] = self.now

    def _handshake_sent(self, s, conn):
        for att in s.upg_attempts:
            if att['conn'] is conn:
                return [f for _, f in att['frames']][:2] == ['2probe', '5']
        return False

    def collect(self):
        for s in self.sessions:
            self._promote(s)
            for r in s.posts:
                if r.done and r.status != 200 and getattr(r, '_pong_t', None) is not None:
                    # the POST that carried a PONG was refused: the server never saw it
                    if r._pong_t in s.pongs:
                        s.pongs.remove(r._pong_t)
                    r._pong_t = None
            r = s.open_req
            if r is not None and r.done and not getattr(r, '_harvested', False):
                r._harvested = True
                if r.status == 200 and r.exc is None:
                    self._harvest_body(s, r, 'poll')
                elif r.status is not None:
                    s.client_closed = True
            for r in s.polls:
                if r.done and not getattr(r, '_harvested', False):
                    r._harvested = True
                    if r.status == 200 and r.exc is None:
                        self._harvest_body(s, r, 'poll')
                    elif getattr(r, '_odd_upgrade', None) is None:
                        s.client_closed = True      # (a refused upgrade attempt ends nothing)
            for conn, via in ((s.open_conn, 'ws'), (s.main_ws, 'ws'), (s.upg, 'upg')):
                if conn is None:
                    continue
                k = id(conn)
                n = s._cursor.get(k, 0)
                if via == 'upg' and conn is s.main_ws:
                    continue
                for (t, f) in conn.sent[n:]:
                    pt, payload, raw = parse_frame(f)
                    self._got(s, t, 'ws' if conn in (s.main_ws, s.open_conn) or
                              self._handshake_sent(s, conn) else 'upg', pt, payload, conn)
                s._cursor[k] = len(conn.sent)
                if conn in (s.main_ws, s.open_conn) and (conn.server_closed or conn.done):
                    s.client_closed = True
            for a in s.upg_attempts:
                conn = a['conn']
                if conn.done and conn.http_status == 200 and not conn.accepted and \
                        conn.resp_body and not getattr(conn, '_harvested', False):
                    # the server treated the request as a poll: the answer carries packets
                    conn._harvested = True
                    self._harvest_body(s, conn, 'poll')
                if conn is s.upg or conn is s.main_ws:
                    continue
                k = id(conn)
                n = s._cursor.get(k, 0)
                for (t, f) in conn.sent[n:]:
                    pt, payload, raw = parse_frame(f)
                    self._got(s, t, 'ws' if self._handshake_sent(s, conn) else 'upg',
                              pt, payload, conn)
                s._cursor[k] = len(conn.sent)

    def _harvest_body(self, s, r, via):
        raw = r.resp_body or b''
        enc = r.header('Content-Encoding') if hasattr(r, 'header') else None
        if enc:
            import gzip
            import zlib
            try:
                raw = gzip.decompress(raw) if enc == 'gzip' else zlib.decompress(raw)
            except Exception:       # noqa  (a mislabelled body: C19's business; nothing readable)
                raw = None
        try:
            text = raw.decode('utf-8') if raw is not None else None
        except UnicodeDecodeError:
            text = None
        if text is not None and s.jsonp is not None and getattr(r, 'method', 'GET') == 'GET' \
                and ('j=' in r.query):
            try:
                idx, text = rm.parse_jsonp(text)
            except Exception:       # noqa  (not a JSONP statement: nothing readable)
                text = None
        r.packets = parse_payload(text) if text is not None else [(None, r.resp_body, None)]
        for pt, payload, raw in r.packets:
            self._got(s, r.t_end, via, pt, payload, r)

    def _got(self, s, t, via, pt, payload, where):
        s.received.append((t, via, pt, payload, where))
        if pt == 0 and isinstance(payload, dict):
            if s.open_info is None:
                s.open_info = payload
                if s.sid is None and isinstance(payload.get('sid'), str):
                    s.sid = payload['sid']
        elif pt == 2 and via != 'upg':
            s.pings.append(t)
            s.ping_pending = True
        elif pt == 1:
            s.client_closed = True

    # -- automation (simulated client behaviour between explicit actions) ------------------------
    def automate(self):
        acted = False
        self.collect()
        for s in self.sessions:
            if s.vanished or s.client_closed or self.sid_of(s) is None:
                continue
            if s.autopong and s.ping_pending:
                delay = getattr(s, 'pong_delay', 0) or 0
                if delay <= 0:
                    self._send_pong(s)
                else:
                    s.ping_pending = False
                    self._timer_seq = getattr(self, '_timer_seq', 0) + 1
                    self.client_timers.append((s.pings[-1] + delay, self._timer_seq,
                                               lambda s=s: self._delayed_pong(s)))
                acted = True
            if s.autopoll and s.main_ws is None and s.kind == 'polling' and \
                    (s.open_req is None or s.open_req.done) and \
                    s.open_info is not None and all(p.done for p in s.polls):
                last = s.polls[-1] if s.polls else None
                if last is not None and last.t_end == self.now and \
                        all(pk[0] == 6 for pk in getattr(last, 'packets', [])):
                    continue        # NOOP-only answer at this very instant: wait for time to move
                self._start_poll(s)
                acted = True
        return acted

    def settle(self):
        for _ in range(50):
            self.world.settle()
            self._quiet_now = True
            if not self.automate():
                break

    def _delayed_pong(self, s):
        if s.vanished or s.client_closed:
            return
        self._send_pong(s)

    def _run_client_timers(self):
        ran = False
        due = sorted((t for t in self.client_timers if t[0] <= self.now), key=lambda t: t[:2])
        for t in due:
            self.client_timers.remove(t)
            t[2]()
            ran = True
        return ran

    def pass_time(self, dt):
        target = self.now + dt
        for _ in range(100000):
            self.settle()
            while self._run_client_timers():
                self.settle()
            nd = self.world.next_deadline()
            cd = min((t[0] for t in self.client_timers), default=None)
            if cd is not None and (nd is None or cd < nd):
                nd = cd
            if nd is None or nd > target:
                break
            self.world.advance_to(nd)
        self.world.advance_to(target)
        self.settle()
        while self._run_client_timers():
            self.settle()

    # -- primitive client operations -------------------------------------------------------------
    def upg_state(self, s):
        """'open' while an accepted upgrade socket exists on which the client has so far sent a
        strict prefix of the correct handshake and which nobody has closed."""
        c = s.upg
        others = [a for a in s.upg_attempts
                  if a['conn'] is not c and a['conn'] is not s.main_ws and a['conn'].accepted and
                  not (a['conn'].done or a['conn'].peer_closed or a['conn'].failed or
                       a['conn'].server_closed)]
        if others:
            s.multi_upg = True
        if getattr(s, 'multi_upg', False):
            # several upgrade sockets were open on this session at once: the statement speaks of
            # one handshake at a time, what polls return meanwhile is not judged any more
            return 'mixed'
        if c is None or s.main_ws is not None or not c.accepted or c.done or c.peer_closed \
                or c.failed or c.server_closed:
            return 'none'
        att = [x for x in s.upg_attempts if x['conn'] is c][0]
        fr = [f for _, f in att['frames']]
        return 'open' if fr in ([], ['2probe']) else 'none'

    def _start_poll(self, s, immediate=True, headers=(), query=None):
        r = self.world.http('GET', query or ('transport=polling&EIO=4&sid=' + self.sid_of(s) +
                                             self._jq(s)),
                            headers=list(headers) + self._ae(s))
        r.role, r.sess = 'poll', s
        r._step = len(self.actions)
        r._immediate = immediate
        r._upg_state = self.upg_state(s)
        r._sent_done = [x['tag'] for x in s.app_sent
                        if x['call'].done and x['call'].exc is None]
        r._overlaps = sum(1 for q in s.polls if not q.done)
        s.polls.append(r)
        return r

    def wire_body(self, s, body, wrap=True):
        """What a polling client puts into the POST: the payload itself, or for a JSONP client
        the form field d=<payload> (percent-encoded)."""
        if s.jsonp is None or not wrap:
            return body
        import urllib.parse
        return b'd=' + urllib.parse.quote_from_bytes(body, safe='').encode('ascii')

    def _post_raw(self, s, body, declared=None, sid=None, wrap=True):
        jsonp = s.jsonp is not None and wrap
        body = self.wire_body(s, body, wrap)
        r = self.world.http('POST', 'transport=polling&EIO=4&sid=' + (sid or self.sid_of(s) or 'x')
                            + (self._jq(s) if jsonp else ''),
                            body=body, declared=declared,
                            headers=[('Content-Type', 'application/x-www-form-urlencoded' if jsonp
                                      else 'text/plain;charset=UTF-8')])
        r.role, r.sess = 'post', s
        s.posts.append(r)
        return r

    def _send_pong(self, s):
        if not s.ping_pending:
            s.pongs_unsolicited.append(self.now)
        s.ping_pending = False
        s.pongs.append(self.now)
        if s.main_ws is not None:
            self.world.ws_client_send(s.main_ws, '3')
            s.client_sent.append({'t': self.now, 'via': 'ws', 'conn': s.main_ws,
                                  'pkts': [(3, None)], 'raw': '3', 'req': None})
        else:
            r = self._post_raw(s, b'3')
            r._pong_t = self.now
            s.client_sent.append({'t': self.now, 'via': 'post', 'conn': None,
                                  'pkts': [(3, None)],
                                  'raw': self.wire_body(s, b'3').decode('ascii'), 'req': r})

    # -- the action interpreter ------------------------------------------------------------------------
    def do(self, a):
        self.actions.append(a)
        self.steps.append({'t': self.now, 'a': a})
        self._picks = a.get('sched') or []
        self._pick_i = 0
        self._det = self.annotate(a)
        self.world.app_log.step = len(self.actions)
        if self.impl == 'thread':
            self.world.sched.arm(a.get('preempt'))
        op = a['op']
        self._quiet_now = False
        n_reqs = len(self.world.reqs)
        if op in ('poll', 'post', 'upg_connect', 'ws_send', 'ws_close', 'ws_fail', 'ws_soft_fail',
                  'pong', 'request') and getattr(self.sess(a.get('s')), 'gone_at_accept', False):
            pass        # a client that was gone before its connection was established does nothing
        else:
            getattr(self, 'op_' + op)(a)
        if op != 'advance':
            for r in self.world.reqs[n_reqs:]:
                r._explicit = True           # issued by the action itself, not by automation
        idle = True
        if a.get('settle', True) and op not in ('advance',):
            self.settle()
            idle = self.world.app_log.busy == 0     # no handler is still taking its time
            if idle:
                self.quiet_points.append(len(self.actions))
        self._quiet_now = (a.get('settle', True) or op == 'advance') and \
            self.world.app_log.busy == 0
        for r in self.world.reqs[n_reqs:]:
            r._inside_step = r.done          # answered within the step that issued it
        self.collect()

    def annotate(self, a):
        """Before a client unit is issued: is its session live and the world quiet?"""
        if a['op'] not in ('post', 'ws_send', 'pong', 'poll'):
            return None
        s = self.sess(a.get('s'))
        if s is None or self.sid_of(s) is None:
            return None
        n = len(self.actions) - 1           # actions before this one
        quiet = n == 0 or n in self.quiet_points
        evs = self.events_for(s)
        live = any(e == 'connect' for _, e, _ in evs) and \
            not any(e == 'disconnect' for _, e, _ in evs) and s.expect_accept
        live_any = live
        if a['op'] == 'ws_send':
            conn = self._sock(s, a.get('sock', 'main'))
            live = live and conn is not None and conn.accepted and not conn.done and \
                not conn.peer_closed and not conn.failed and not conn.server_closed
        elif a['op'] == 'post':
            live = live and s.main_ws is None and s.kind == 'polling'
        return {'live': bool(live and quiet), 'settled_after': bool(a.get('settle', True)),
                'other_causes': bool(s.causes) or s.vanished,
                # live whatever transport the session is on (a POST to a WebSocket session)
                'live_any': bool(live_any and quiet and not s.upg_attempts
                                 and s.kind == 'websocket')}

    def annotate_live(self, s, a=None):
        a = a or self.actions[-1]
        if self.sid_of(s) is None:
            return None
        n = len(self.actions) - 1
        quiet = n == 0 or n in self.quiet_points
        evs = self.events_for(s)
        live = any(e == 'connect' for _, e, _ in evs) and \
            not any(e == 'disconnect' for _, e, _ in evs) and s.expect_accept
        prior = [c for c in s.causes if c.get('step') != len(self.actions)]
        return {'live': bool(live and quiet), 'settled_after': bool(a.get('settle', True)),
                'other_causes': bool(prior) or s.vanished}

    def op_open(self, a):
        s = Sess(len(self.sessions), a.get('transport', 'polling'))
        s.t_open = self.now
        self.sessions.append(s)
        oc = a.get('connect')
        if oc is not None:
            s.outcome = oc
            if oc[0] == 'raise':
                self.world.app_log.outcome_by_ord[s.ord] = ('raise',)
                s.expect_accept = False
            else:
                v = rm.untag(oc[1])
                self.world.app_log.outcome_by_ord[s.ord] = ('ret', v)
                s.expect_accept = v is None or v is True
        s.autopong = bool(a.get('autopong'))
        s.autopoll = bool(a.get('autopoll'))
        s.pong_delay = a.get('pong_delay', 0)
        s.pong_class = a.get('pong_class')
        s.manual_pongs = 0
        hdrs = [('X-Verif-Open', str(s.ord)), ('Host', 'localhost')]
        if s.kind == 'websocket':
            gone = bool(a.get('vanish_at_accept'))
            s.open_conn = self.world.ws_open('transport=websocket&EIO=4', headers=hdrs,
                                             fail_accept=gone)
            s.open_conn.role, s.open_conn.sess = 'open', s
            s.main_ws = s.open_conn
            if gone:
                # the client vanishes while the server is answering the handshake
                s.gone_at_accept = True
                s.vanished = True
                s.t_vanished = self.now
                s.client_closed = True
        else:
            s.jsonp = a.get('jsonp')
            s.accept_encoding = a.get('accept_encoding')
            s.open_req = self.world.http('GET', 'transport=polling&EIO=4' + self._jq(s),
                                         headers=hdrs + self._ae(s))
            s.open_req.role, s.open_req.sess = 'open', s

    def _jq(self, s):
        return '' if s.jsonp is None else '&j=%d' % s.jsonp

    def _ae(self, s):
        return [] if not s.accept_encoding else [('Accept-Encoding', s.accept_encoding)]

    def op_poll(self, a):
        s = self.sess(a['s'])
        if s is None or self.sid_of(s) is None:
            return
        self._start_poll(s, a.get('settle', True))

    def op_post(self, a):
        s = self.sess(a['s'])
        if s is None or self.sid_of(s) is None:
            return
        if a.get('raw') is not None:
            raw = a['raw']
            body = raw.encode('utf-8', 'surrogatepass') if isinstance(raw, str) \
                else rm.untag(raw)
            pkts = None
        else:
            pkts = [(p[0], rm.untag(p[1])) for p in a['pkts']]
            raw = SEP.join(encode_client_packet(t, d, True) for t, d in pkts)
            body = raw.encode('utf-8')
        declared = None
        wrap = pkts is not None         # (raw bodies go out as they are)
        wire = self.wire_body(s, body, wrap)
        if a.get('declared_delta'):
            declared = max(0, len(wire) + a['declared_delta'])
        r = self._post_raw(s, body, declared, wrap=wrap)
        if wire is not body:
            raw = wire.decode('ascii')      # the model reads what is on the wire (d=<quoted>)
        s.client_sent.append({'t': self.now, 'via': 'post', 'conn': None, 'pkts': pkts,
                              'raw': raw, 'req': r, 'declared': declared, 'size': len(wire),
                              'det': self._det, 'step': len(self.actions)})
        if pkts and any(t == 3 for t, _ in pkts):
            # every PONG beyond the one that answers an outstanding PING starts a PING timer of
            # its own on the server (possibly later than now, if handlers take time)
            npong = sum(1 for t, _ in pkts if t == 3)
            s.pongs_unsolicited.extend([self.now] * (npong - (1 if s.ping_pending else 0)))
            s.ping_pending = False
            # the PONG counts for the model only if the server certainly reads it: whole body
            # declared, within the limits, nothing before it that ends the processing
            k = [t for t, _ in pkts].index(3)
            limit = self.config.get('max_http_buffer_size', 1000000)
            if declared is None and len(wire) <= limit and len(pkts) <= 16 and \
                    all(t in (3, 4, 5) for t, _ in pkts[:k]):
                s.pongs.append(self.now)
                r._pong_t = self.now        # withdrawn in collect() if the POST is refused

    def op_upg_connect(self, a):
        s = self.sess(a['s'])
        if s is None or self.sid_of(s) is None:
            return
        if a.get('stale_first'):
            # the client opens two upgrade sockets; the first one stays silent for now
            self.op_upg_connect({k: v for k, v in a.items() if k != 'stale_first'})
            if a.get('settle', True):
                self.settle()
        q = 'transport=%s&EIO=4&sid=%s' % (a.get('qtransport', 'websocket'), self.sid_of(s))
        hdr = a.get('hdr')
        if hdr is not None:
            uh = [('Upgrade', hdr), ('Connection', a.get('conn_hdr', 'Upgrade'))]
            exact = hdr.lower() == 'websocket' and 'upgrade' in [
                x.strip().lower() for x in a.get('conn_hdr', 'Upgrade').split(',')]
            if self.impl == 'async' and not exact:
                # an ASGI server only opens a websocket scope for "Upgrade: websocket"; anything
                # else reaches the application as a plain GET carrying these headers
                r = self._start_poll(s, headers=uh, query=q)
                r._odd_upgrade = hdr
                return
            conn = self.world.ws_open(q, headers=[('Host', 'localhost')], upgrade_hdrs=uh)
            conn._odd_upgrade = hdr
        else:
            conn = self.world.ws_open(q, headers=[('Host', 'localhost')])
        conn.role, conn.sess = 'upgrade', s
        if any(not a['conn'].done and not a['conn'].rejected and a['conn'] is not s.main_ws
               for a in s.upg_attempts):
            # (the server's handler for an earlier socket has not finished - even if the client
            # has closed that socket already)
            s.multi_upg = True
        if not (a.get('stale_after') and s.upg is not None):
            s.upg = conn        # (stale_after: the new socket stays silent, the handshake that
                                # is under way on the current one goes on)
        s.upg_attempts.append({'conn': conn, 'frames': [], 't': self.now,
                               'step': len(self.actions),
                               'unsettled': not a.get('settle', True),
                               'had_main': s.main_ws is not None,
                               'main_was_dead': s.main_ws is not None and (
                                   s.main_ws.done or s.main_ws.peer_closed or
                                   s.main_ws.failed or s.main_ws.server_closed)})

    def op_upg_swap(self, a):
        """The client turns to an older upgrade socket of the session that is still open (two
        handshakes overlapping on one session): it becomes the 'current' one."""
        s = self.sess(a['s'])
        if s is None:
            return
        for att in s.upg_attempts:
            c = att['conn']
            if c is s.upg or c is s.main_ws or not c.accepted or c.done or c.peer_closed or \
                    c.failed or c.server_closed:
                continue
            s.upg = c
            att['swapped'] = True
            return

    def _sock(self, s, which):
        if s is None:
            return None
        return s.main_ws if which == 'main' else s.upg

    def op_ws_send(self, a):
        s = self.sess(a['s'])
        conn = self._sock(s, a.get('sock', 'main'))
        if conn is None:
            return
        frame = rm.untag(a['frame'])
        self.world.ws_client_send(conn, frame)
        for att in s.upg_attempts:
            if att['conn'] is conn:
                att.setdefault('raw_frames', []).append((self.now, frame))
                canon = self.canon_handshake_frame(frame)
                if canon is None:
                    att['unsettled'] = True     # the reference decoder leaves its reading open
                    canon = frame
                att['frames'].append((self.now, canon))
                if not a.get('settle', True):
                    att['unsettled'] = True
        pt, payload, _ = parse_frame(frame) if frame not in ('', b'') else (None, frame, frame)
        s.client_sent.append({'t': self.now, 'via': 'ws', 'conn': conn, 'frame': frame,
                              'pkts': [(pt, payload)], 'raw': frame, 'req': None,
                              'size': len(frame), 'det': self._det,
                              'step': len(self.actions)})
        if pt == 3 and conn is s.main_ws:
            if not s.ping_pending:
                s.pongs_unsolicited.append(self.now)
            s.ping_pending = False
            s.pongs.append(self.now)

    def canon_handshake_frame(self, frame):
        """'2probe' for every frame within the size limit that decodes to PING with payload
        'probe' (also its JSON-string spelling), '5' for every frame of type UPGRADE, the frame
        itself otherwise; None when the reference decoder allows more than one reading."""
        limit = self.config.get('max_http_buffer_size', 1000000)
        if not isinstance(frame, str) or frame == '' or len(frame) > limit:
            return frame
        r = rm.ref_decode_packet(frame)
        if r[0] != 'ok':
            return frame
        _, pt, allowed, binary = r
        if pt == 5:
            return '5'
        if pt == 2:
            hits = [x == 'probe' for x in allowed]
            if all(hits):
                return '2probe'
            if any(hits):
                return None
        return frame

    def op_ws_close(self, a):
        s = self.sess(a['s'])
        conn = self._sock(s, a.get('sock', 'main'))
        if conn is None:
            return
        self.world.ws_client_close(conn)
        conn.t_peer_closed = self.now
        for att in s.upg_attempts:
            if att['conn'] is conn and not a.get('settle', True):
                att['unsettled'] = True
        if conn is s.main_ws:
            s.causes.append({'t': self.now, 'cause': 'ws-close', 'step': len(self.actions),
                             'det': self.annotate_live(s)})
            s.client_closed = True      # the client's only transport is gone: it stops acting
        elif self._handshake_complete_on(s, conn):
            # the whole handshake was sent on it (not yet confirmed at a quiet point): it may be
            # the session's transport by now - a possible cause, never a certain one
            s.causes.append({'t': self.now, 'cause': 'ws-close', 'step': len(self.actions),
                             'det': None})

    def _handshake_complete_on(self, s, conn):
        for att in s.upg_attempts:
            if att['conn'] is conn:
                return [f for _, f in att['frames']][:2] == ['2probe', '5']
        return False

    def op_ws_fail(self, a):
        s = self.sess(a['s'])
        conn = self._sock(s, a.get('sock', 'main'))
        if conn is None:
            return
        self.world.ws_fail(conn, a.get('exc'))
        conn.t_peer_closed = self.now
        if conn is s.main_ws:
            s.causes.append({'t': self.now, 'cause': 'ws-fail', 'step': len(self.actions),
                             'det': self.annotate_live(s)})
            s.client_closed = True      # the client's only transport is gone: it stops acting
        elif self._handshake_complete_on(s, conn):
            # the whole handshake was sent on it (not yet confirmed at a quiet point): it may be
            # the session's transport by now - a possible cause, never a certain one
            s.causes.append({'t': self.now, 'cause': 'ws-fail', 'step': len(self.actions),
                             'det': None})

    def op_ws_soft_fail(self, a):
        """The next write of the server on this session's WebSocket fails; the connection itself
        stays usable (a transient fault)."""
        s = self.sess(a['s'])
        conn = self._sock(s, 'main')
        if conn is None:
            return
        self.world.ws_fail_next_send(conn)
        if a.get('exc'):
            conn.fail_exc = a['exc']
        s.soft_faults = getattr(s, 'soft_faults', []) + [self.now]
        if a.get('send') is not None:
            # ... and the application sends right away: this is the write that fails
            self.op_app_send({'s': a['s'], 'data': a['send'], 'settle': a.get('settle', True)})
            if a.get('then_close'):
                # ... and then the client closes its end
                self.settle()
                self.op_ws_close({'s': a['s'], 'sock': 'main', 'settle': True})

    def op_pong(self, a):
        s = self.sess(a['s'])
        if s is None or self.sid_of(s) is None:
            return
        s.manual_pongs = getattr(s, 'manual_pongs', 0) + 1
        self._send_pong(s)

    def op_app_send(self, a):
        s = self.sess(a['s'])
        if s is None:
            return
        sid = self.sid_of(s)
        data = rm.untag(a['data'])
        if sid is None:
            # the open has not been processed yet: this is a send to an id nobody owns
            c = self.world.call('send', 'nosuchsid', data)
            c.sess = None
            self.dead_sends.append({'t': self.now, 'tag': find_tag(data), 'call': c})
            return
        c = self.world.call('send', sid, data)
        c.sess = s
        c.target_state = self.model_state(s)
        s.app_sent.append({'t': self.now, 'tag': find_tag(data), 'data': data, 'call': c,
                           'step': len(self.actions), 'target_state': c.target_state,
                           'settled': bool(a.get('settle', True)),
                           'after': set(x['tag'] for x in s.app_sent if x['call'].done),
                           'upg_state': self.upg_state(s),
                           'poll_pending': any(not q.done for q in s.polls)})

    def op_app_burst(self, a):
        for d in a['data']:
            self.op_app_send({'s': a['s'], 'data': d, 'settle': True})
            self.settle()

    def model_state(self, s):
        """'live' | 'ended' | 'rejected' | 'unopened' as the handler log tells it right now; None
        when the world is not quiet (the state the call will meet is then unknown)."""
        n = len(self.actions) - 1
        if not (n == 0 or n in self.quiet_points):
            return None
        if self.sid_of(s) is None:
            return 'unopened'
        if not s.expect_accept:
            return 'rejected'
        evs = self.events_for(s)
        if not any(e == 'connect' for _, e, _ in evs):
            return 'unopened'
        return 'ended' if any(e == 'disconnect' for _, e, _ in evs) else 'live'

    def live_view(self):
        """{ord: 'websocket' | 'polling-poll-pending' | 'polling-no-poll-pending'} of the sessions
        that are live right now (connected, accepted, no disconnect event yet)."""
        out = {}
        for s in self.sessions:
            if self.sid_of(s) is None or not s.expect_accept:
                continue
            evs = self.events_for(s)
            if not any(e == 'connect' for _, e, _ in evs) or \
                    any(e == 'disconnect' for _, e, _ in evs):
                continue
            if s.main_ws is not None:
                out[s.ord] = 'websocket'
            else:
                out[s.ord] = 'polling-poll-pending' if any(not p.done for p in s.polls) \
                    else 'polling-no-poll-pending'
        # sessions created by raw requests are not in the model: classification only (never an
        # oracle input) looks at the server's table for them
        known = set(self.sid_of(s) for s in self.sessions)
        for sid, sock in list(getattr(self.world.server, 'sockets', {}).items()):
            if sid not in known and not getattr(sock, 'closed', False):
                out['raw-' + sid] = 'websocket' if getattr(sock, 'upgraded', False) \
                    else 'polling-no-poll-pending'
        return out

    def _quiet_issue(self, a):
        n = len(self.actions) - 1
        return (n == 0 or n in self.quiet_points) and bool(a.get('settle', True))

    def op_app_disconnect(self, a):
        view = self.live_view()
        if 'sid' in a:
            # disconnect() with an id that names no session (unknown, empty, zero)
            c = self.world.call('disconnect', a['sid'])
            c.sess = None
            c.view = view
            c.quiet = self._quiet_issue(a)
            c.foreign_sid = True
            c.step = len(self.actions)
            c.settled = bool(a.get('settle', True))
            return
        if a.get('s') is None:
            c = self.world.call('disconnect')
            c.sess = None
            c.view = view
            c.quiet = self._quiet_issue(a)
            for s in self.sessions:
                s.causes.append({'t': self.now, 'cause': 'api', 'call': c,
                                 'step': len(self.actions), 'det': self.annotate_live(s, a)})
            return
        s = self.sess(a['s'])
        if s is None:
            return
        c = self.world.call('disconnect', self.sid_of(s) or 'nosuchsid')
        c.sess = s
        c.view = view
        c.quiet = self._quiet_issue(a)
        s.causes.append({'t': self.now, 'cause': 'api', 'call': c, 'step': len(self.actions),
                         'det': self.annotate_live(s, a)})

    def op_api(self, a):
        s = self.sess(a['s'])
        sid = a['sid'] if 'sid' in a else ((self.sid_of(s) if s else None) or 'nosuchsid')
        name = a['name']
        if name == 'session':
            c = self.world.session_ctx(sid, a.get('key'), a.get('val'))
        elif name == 'save_session':
            c = self.world.call('save_session', sid, {a.get('key', 'k'): a.get('val')})
        else:
            c = self.world.call(name, sid)
        c.sess = s
        c.action = a
        c.target_state = self.model_state(s) if s is not None else 'foreign'
        c.judge = self._quiet_issue(a)

    def op_fault(self, a):
        self.world.app_log.fault[a['event']] += 1
        self.world.app_log.fault_exc[a['event']].append(a.get('exc', 'RuntimeError'))

    def op_vanish(self, a):
        s = self.sess(a['s'])
        if s is None:
            return
        s.vanished = True
        s.t_vanished = self.now
        for r in s.polls:
            if not r.done:
                self.world.client_gone(r)

    def op_advance(self, a):
        self.pass_time(a['dt'])
        if self.world.app_log.busy == 0:
            self.quiet_points.append(len(self.actions))

    def op_settle(self, a):
        pass

    def op_request(self, a):
        s = self.sess(a.get('s'))
        q = a['query'].replace('{sid}', (self.sid_of(s) or 'nosid') if s else 'nosid')
        body = rm.untag(a['body']) if a.get('body') else b''
        if isinstance(body, str):
            body = body.encode('utf-8')
        hl = {h[0].lower(): h[1].lower() for h in a.get('headers', [])}
        is_ws = a.get('ws') or (a['method'] == 'GET' and hl.get('upgrade') == 'websocket' and
                                'upgrade' in hl.get('connection', ''))
        if is_ws:
            # a GET carrying both upgrade headers is what a gateway hands over as a WebSocket
            c = self.world.ws_open(q, headers=[tuple(h) for h in a.get('headers', [])
                                               if h[0].lower() not in ('upgrade', 'connection')])
            c.role, c.sess = 'raw', s
            self.raw_reqs.append(c)
        else:
            hdrs = [tuple(h) for h in a.get('headers', [])]
            r = self.world.http(a['method'], q, headers=hdrs, body=body,
                                declared=a.get('content_length'))
            r.role, r.sess = 'raw', s
            self.raw_reqs.append(r)

    # -- end of history -------------------------------------------------------------------------------
    def drain(self, horizon=None, keep_policies=False):
        """Clients keep reading and answering; the clock moves past every deadline."""
        self.settle()
        for s in self.sessions:
            if keep_policies:
                continue
            if not s.vanished:
                s.autopong = True
                s.autopoll = True
                if s.main_ws is None:
                    # the client gives up every handshake it never finished
                    for c in [s.upg] + [x['conn'] for x in s.upg_attempts]:
                        if c is not None and not c.done and not c.peer_closed:
                            self.world.ws_client_close(c)
                            c.t_peer_closed = self.now
        self.drained_at = self.now
        if isinstance(horizon, (list, tuple)):
            horizon = horizon[0] * self.I + horizon[1] * self.T
        if horizon is None:
            horizon = 2 * (self.I + self.T) + self.T
        self.pass_time(horizon)

    def close(self):
        self.world.teardown()


def encode_client_packet(ptype, data, b64):
    """What a client puts on the wire; ptype may be 0..9."""
    if isinstance(data, (bytes, bytearray)):
        return rm.ref_encode(4, data, b64)
    s = str(ptype)
    if data is None:
        return s
    if isinstance(data, str):
        return s + data
    return s + json.dumps(data, separators=(',', ':'))


# ---------------------------------------------------------------------------------------------
# Hypothesis strategies for configuration and actions
# ---------------------------------------------------------------------------------------------
def dyadic(lo, hi):
    return st.integers(int(lo / TICK), int(hi / TICK)).map(lambda n: n * TICK)


def config_st(profile):
    return st.fixed_dictionaries({
        'ping_interval': profile.get('ping_interval', st.sampled_from([1, 2.5, 5, 25])),
        'ping_timeout': profile.get('ping_timeout', st.sampled_from([1, 2.5, 5, 20])),
        'max_http_buffer_size': profile.get('max_http_buffer_size',
                                            st.sampled_from([1000000, 64, 200])),
        'allow_upgrades': profile.get('allow_upgrades', st.sampled_from([True, True, False])),
        'transports': profile.get('transports', st.sampled_from(
            [None, None, ['polling'], ['websocket'], ['polling', 'websocket']])),
        'async_handlers': profile.get('async_handlers', st.booleans()),
        'monitor_clients': profile.get('monitor_clients', st.sampled_from([True, True, False])),
        'http_compression': profile.get('http_compression', st.just(False)),
        **({'compression_threshold': profile['compression_threshold']}
           if 'compression_threshold' in profile else {}),
        **({'cors_allowed_origins': profile['cors_allowed_origins']}
           if 'cors_allowed_origins' in profile else {}),
    })


def text_suffix():
    return st.text(alphabet=st.sampled_from(list('ab"\\ {}[]:,0é\n') + ['\U0001f600']),
                   max_size=6)


def server_payload(draw, s_ord, seq, empties_pct=0):
    tag = 'S%d.%d~' % (s_ord, seq)
    if empties_pct and draw(st.integers(0, 99)) < empties_pct:
        return b''              # an empty binary message (untagged: counted, not ordered)
    kind = draw(st.sampled_from(['text', 'text', 'json', 'bytes']))
    if kind == 'text':
        return tag + draw(text_suffix())
    if kind == 'json':
        return draw(st.sampled_from([
            {'tag': tag}, {'tag': tag, 'x': [1, 'a', None]}, [tag, 1], {'tag': tag, 'n': {'a': 1.5}},
            {'tag': tag, 'half': '\ud83d'}]))       # (a lone surrogate: legal in JSON text)
    return tag.encode() + draw(st.binary(max_size=6))


def client_payload(draw, s_ord, seq, reactions=None, empties_pct=0):
    tag = 'C%d.%d~' % (s_ord, seq)
    if empties_pct and draw(st.integers(0, 99)) < empties_pct:
        return draw(st.sampled_from([b'', b'', '', b'\x00']))      # untagged, (nearly) empty
    if reactions:
        # messages the application's handler answers itself (see Exec._react)
        k = draw(st.integers(0, 99))
        for name, pct in reactions:
            if k < pct:
                if name == 'echo-surrogate':
                    # a JSON string literal holding a lone surrogate: legal JSON text, decodes
                    # to a str that UTF-8 cannot carry; the handler sends its tail back
                    return json.dumps(tag + '!echo\ud800')
                return tag + '!' + name
            k -= pct
    kind = draw(st.sampled_from(['text', 'text', 'json', 'bytes', 'jsontext', 'qtext', 'wide']))
    if kind == 'text':
        return tag + draw(text_suffix())
    if kind == 'wide':
        # non-ASCII text: fewer characters than bytes (size limits count one or the other)
        return tag + '\u00e9' * draw(st.sampled_from([20, 50, 55, 57, 100, 190]))
    if kind == 'json':
        return draw(st.sampled_from([{'tag': tag}, {'tag': tag, 'x': [1, 'a', None]}, [tag, 2],
                                     {'tag': tag, 'half': '\ud83d'}]))
    if kind == 'bytes':
        return tag.encode() + draw(st.binary(max_size=6))
    if kind == 'jsontext':
        return json.dumps({'tag': tag, 'k': draw(st.integers(0, 3))})
    return json.dumps(tag)          # a JSON string literal: arrives as the plain string


def draw_schedule(draw, impl_hint='thread'):
    return draw(st.lists(st.integers(0, 3), max_size=4))


class Drawer:
    """Draws the next action given the executor's client-side model and a profile of weights."""

    def __init__(self, draw, ex, profile):
        self.draw, self.ex, self.profile = draw, ex, profile

    def choose(self, pairs):
        pairs = [(k, w) for k, w in pairs if w > 0]
        total = sum(w for _, w in pairs)
        n = self.draw(st.integers(0, total - 1))
        for k, w in pairs:
            if n < w:
                return k
            n -= w
        return pairs[-1][0]

    def session_index(self):
        n = len(self.ex.sessions)
        return self.draw(st.integers(0, n - 1))

    def next_action(self):
        ex, W = self.ex, self.profile['weights']
        have = len(ex.sessions) > 0
        opts = [('open', W.get('open', 3) if len(ex.sessions) < self.profile.get('max_sessions', 3)
                 else 0)]
        if have:
            for k in ('poll', 'post', 'upg_connect', 'upg_swap', 'ws_send', 'ws_close', 'ws_fail',
                      'ws_soft_fail', 'pong', 'app_send', 'app_burst', 'app_disconnect', 'api', 'vanish', 'request',
                      'probe_step'):
                opts.append((k, W.get(k, 0)))
        opts += [('advance', W.get('advance', 2)), ('fault', W.get('fault', 0))]
        op = self.choose(opts)
        a = getattr(self, 'a_' + op)()
        if a is None:
            a = {'op': 'settle'}
        if a['op'] not in ('advance', 'settle'):
            a['settle'] = self.draw(st.sampled_from(self.profile.get('settle', [True, True, True,
                                                                                 False])))
            if ex.impl == 'thread' or self.profile.get('sched'):
                sch = self.draw(st.lists(st.integers(0, 3), max_size=3))
                if sch:
                    a['sched'] = sch
            if ex.impl == 'thread' and getattr(ex.world.sched, 'trace_on', False) and \
                    self.draw(st.integers(0, 2)) == 0:
                # line-granularity switching points inside the library for this step
                a['preempt'] = sorted(self.draw(st.lists(st.integers(1, 400), min_size=1,
                                                         max_size=3)))
        return a

    # each a_* returns an action dict
    def a_open(self):
        d = self.draw
        tr = d(st.sampled_from(self.profile.get('open_transports', ['polling', 'polling',
                                                                     'websocket'])))
        allowed = self.ex.config.get('transports') or ['polling', 'websocket']
        if tr not in allowed and d(st.integers(0, 9)) < 9:
            tr = allowed[0]
        a = {'op': 'open', 'transport': tr,
             'autopong': d(st.sampled_from(self.profile.get('autopong', [True, True, False]))),
             'autopoll': d(st.sampled_from(self.profile.get('autopoll', [False, True])))}
        pd = self.profile.get('pong_delays')
        if pd:
            k = d(st.sampled_from(pd))
            T = self.ex.T
            a['pong_delay'] = {'0': 0, 'T/2': T / 2, 'T-e': T - TICK, 'T': T, 'T+e': T + TICK,
                               '2T': 2 * T}[k]
            a['pong_class'] = k
        oc = d(st.sampled_from(self.profile.get('connect_outcomes', [None])))
        if oc is not None:
            a['connect'] = oc
        if tr == 'websocket' and self.profile.get('vanish_at_accept_pct') and \
                d(st.integers(0, 99)) < self.profile['vanish_at_accept_pct']:
            a['vanish_at_accept'] = True
        fl = self.profile.get('client_flavours')
        if fl and tr == 'polling':
            k = d(st.sampled_from(fl))
            if k in ('jsonp', 'jsonp+gzip'):
                a['jsonp'] = d(st.sampled_from([0, 1, 7, 233]))
            if k in ('gzip', 'jsonp+gzip'):
                a['accept_encoding'] = d(st.sampled_from(['gzip', 'deflate', 'gzip, deflate']))
        return a

    def a_poll(self):
        return {'op': 'poll', 's': self.session_index()}

    def client_packet(self, s):
        d = self.draw
        kind = self.choose(self.profile.get('packet_kinds', [('msg', 6), ('pong', 1), ('close', 1),
                                                              ('upgrade', 1), ('bad', 1),
                                                              ('noise', 0)]))
        if kind == 'msg':
            self.ex.cseq += 1
            return [4, rm.tag(client_payload(d, s.ord, self.ex.cseq, self.profile.get('reactions'),
                                              self.profile.get('untagged_empties_pct', 0)))]
        if kind == 'pong':
            return [3, rm.tag(d(st.sampled_from([None, 'probe', 'x'])))]
        if kind == 'close':
            return [1, rm.tag(None)]
        if kind == 'upgrade':
            return [5, rm.tag(None)]
        if kind == 'bad':
            return [d(st.sampled_from([0, 2, 6, 7, 8, 9])), rm.tag(d(st.sampled_from([None, 'x'])))]
        return [4, rm.tag(d(st.text(max_size=5)))]

    def a_post(self):
        d = self.draw
        i = self.session_index()
        s = self.ex.sessions[i]
        mode = self.choose(self.profile.get('post_modes', [('pkts', 10), ('raw', 1), ('many', 1)]))
        a = {'op': 'post', 's': i}
        if mode == 'raw':
            a['raw'] = d(st.sampled_from(['', '\x1e', '4a\x1e', 'x', '4a\x1ex', 'bAQ', 'b!!!',
                                          '\x1e4a', '4' + '[' * 50, 'd=4a', 'd=', '٣abc',
                                          '4a\x1e\x1e4b']))
            return a
        n = d(st.integers(1, 4)) if mode == 'pkts' else d(st.integers(15, 19))
        a['pkts'] = [self.client_packet(s) for _ in range(n)]
        dd = d(st.sampled_from(self.profile.get('declared_delta', [0] * 12 + [-1, 1, 1000000])))
        if dd:
            a['declared_delta'] = dd
        return a

    def a_upg_connect(self):
        a = {'op': 'upg_connect', 's': self.session_index()}
        if self.draw(st.integers(0, 9)) == 0:
            a['qtransport'] = 'polling'
        pct = self.profile.get('odd_upgrade_hdr_pct', 0)
        if pct and self.draw(st.integers(0, 99)) < pct:
            a['hdr'] = self.draw(st.sampled_from(['WebSocket', 'websocket, h2c', 'h2c, websocket',
                                                  'h2c', ' websocket', 'websocket,websocket']))
            a['qtransport'] = self.draw(st.sampled_from(['polling', 'polling', 'websocket']))
            if self.draw(st.integers(0, 5)) == 0:
                a['conn_hdr'] = self.draw(st.sampled_from(['keep-alive, Upgrade', 'keep-alive',
                                                           'upgrade']))
        return a

    def a_upg_swap(self):
        # prefer a session that has an older open upgrade socket
        cand = [k for k, x in enumerate(self.ex.sessions)
                if sum(1 for att in x.upg_attempts
                       if att['conn'].accepted and not att['conn'].done and
                       att['conn'] is not x.main_ws and att['conn'] is not x.upg) > 0]
        if not cand:
            # none yet: open another upgrade socket next to the current one
            cur = [k for k, x in enumerate(self.ex.sessions)
                   if x.upg is not None and not x.upg.done and x.main_ws is None]
            if not cur:
                return None
            return {'op': 'upg_connect', 's': cur[self.draw(st.integers(0, len(cur) - 1))],
                    'stale_after': True}
        return {'op': 'upg_swap', 's': cand[self.draw(st.integers(0, len(cand) - 1))]}

    def a_probe_step(self):
        """The next correct step of the upgrade handshake for some session (or a wrong one)."""
        d = self.draw
        inprog = [k for k, x in enumerate(self.ex.sessions)
                  if x.upg is not None and not x.upg.done and x.main_ws is None]
        cand = [k for k, x in enumerate(self.ex.sessions)
                if x.kind == 'polling' and x.main_ws is None and x.sid is not None]
        if inprog and d(st.integers(0, 9)) < 8:
            i = inprog[d(st.integers(0, len(inprog) - 1))]
        elif cand and d(st.integers(0, 9)) < 8:
            i = cand[d(st.integers(0, len(cand) - 1))]
        else:
            i = self.session_index()
        s = self.ex.sessions[i]
        if s.upg is None or s.upg.done or s.upg is s.main_ws:
            if d(st.integers(0, 99)) < self.profile.get('stale_socket_pct', 0):
                return {'op': 'upg_connect', 's': i, 'stale_first': True}
            return {'op': 'upg_connect', 's': i}
        att = [x for x in s.upg_attempts if x['conn'] is s.upg][0]
        n = len(att['frames'])
        good = '2probe' if n == 0 else '5'
        wrong = d(st.integers(0, 9)) < self.profile.get('wrong_step_pct', 2)
        if wrong:
            frame = d(st.sampled_from(['2', '2prob', '3probe', '4probe', '5', '6', '', 'x',
                                       b'2probe', '2probe' + 'x' * 300, '4hello', '1', '7',
                                       '2"probe"' + ' ' * 300, '2"probe" ', '2 probe']))
        else:
            frame = good
            if d(st.integers(0, 99)) < self.profile.get('probe_spellings_pct', 5):
                # other spellings of the same packets; with a small size limit also the spelling
                # that is a valid probe but too long
                limit = self.ex.config.get('max_http_buffer_size', 1000000)
                if n == 0:
                    frame = d(st.sampled_from(['2"probe"', '2"probe"' + ' ' * (limit + 10)
                                               if limit <= 1000 else '2"probe" ']))
                else:
                    frame = d(st.sampled_from(['5x', '5{"a":1}']))
        return {'op': 'ws_send', 's': i, 'sock': 'upg', 'frame': rm.tag(frame)}

    def a_ws_send(self):
        d = self.draw
        i = self.session_index()
        s = self.ex.sessions[i]
        sock = d(st.sampled_from(['main', 'main', 'upg']))
        if self.ex._sock(s, sock) is None:
            sock = 'main' if s.main_ws is not None else 'upg'
            if self.ex._sock(s, sock) is None:
                return None
        pk = self.client_packet(s)
        frame = encode_client_packet(pk[0], rm.untag(pk[1]), False)
        return {'op': 'ws_send', 's': i, 'sock': sock, 'frame': rm.tag(frame)}

    def _sock_action(self, op):
        i = self.session_index()
        s = self.ex.sessions[i]
        sock = self.draw(st.sampled_from(['main', 'upg']))
        if self.ex._sock(s, sock) is None:
            sock = 'main' if s.main_ws is not None else 'upg'
            if self.ex._sock(s, sock) is None:
                return None
        return {'op': op, 's': i, 'sock': sock}

    def a_ws_soft_fail(self):
        i = self.session_index()
        if self.ex.sessions[i].main_ws is None:
            return None
        a = {'op': 'ws_soft_fail', 's': i}
        if self.draw(st.integers(0, 1)) == 0:
            a['exc'] = self.draw(st.sampled_from(['RuntimeError', 'Exception']))
        if self.draw(st.integers(0, 2)) > 0:
            self.ex.seq += 1
            a['send'] = rm.tag('S%d.%d~' % (self.ex.sessions[i].ord, self.ex.seq))
            if self.draw(st.integers(0, 2)) == 0:
                a['then_close'] = True
        return a

    def a_ws_close(self):
        return self._sock_action('ws_close')

    def a_ws_fail(self):
        a = self._sock_action('ws_fail')
        if a is not None and self.draw(st.integers(0, 2)) == 0:
            # what later writes on the dead connection raise (libraries differ)
            a['exc'] = self.draw(st.sampled_from(['RuntimeError', 'Exception']))
        return a

    def a_pong(self):
        return {'op': 'pong', 's': self.session_index()}

    def a_app_send(self):
        i = self.session_index()
        s = self.ex.sessions[i]
        self.ex.seq += 1
        return {'op': 'app_send', 's': i,
                'data': rm.tag(server_payload(self.draw, s.ord, self.ex.seq,
                                              self.profile.get('server_empties_pct', 0)))}

    def a_app_burst(self):
        """Many application sends one after the other (each returns before the next is made):
        more than one polling payload may carry."""
        i = self.session_index()
        s = self.ex.sessions[i]
        n = self.draw(st.sampled_from([15, 16, 17, 18, 20, 33, 40]))
        data = []
        for _ in range(n):
            self.ex.seq += 1
            data.append(rm.tag('S%d.%d~' % (s.ord, self.ex.seq)))
        return {'op': 'app_burst', 's': i, 'data': data}

    def a_app_disconnect(self):
        if self.draw(st.integers(0, 99)) < self.profile.get('disconnect_dead_sid_pct', 0):
            return {'op': 'app_disconnect', 's': 0,
                    'sid': self.draw(st.sampled_from(['', 0, 'nosuchsid', 'AAAAAAAAAAAAAAAAAAAA']))}
        if self.draw(st.integers(0, 9)) < self.profile.get('disconnect_all_pct', 1):
            return {'op': 'app_disconnect', 's': None}
        return {'op': 'app_disconnect', 's': self.session_index()}

    def a_api(self):
        d = self.draw
        a = {'op': 'api', 's': self.session_index(),
             'name': d(st.sampled_from(['get_session', 'save_session', 'session', 'transport']))}
        if a['name'] in ('save_session', 'session'):
            a['key'] = d(st.sampled_from(['k', 'user']))
            a['val'] = d(st.integers(0, 1000))
        if d(st.integers(0, 5)) == 0:
            a['sid'] = d(st.sampled_from(['nosuchsid', '', 'AAAA']))
        return a

    def a_vanish(self):
        return {'op': 'vanish', 's': self.session_index()}

    def a_fault(self):
        return {'op': 'fault', 'event': self.draw(st.sampled_from(['message', 'disconnect'])),
                'exc': self.draw(st.sampled_from(['RuntimeError', 'RuntimeError', 'TypeError',
                                                  'KeyError', 'OSError', 'CancelledError']))}

    def a_advance(self):
        d = self.draw
        ex = self.ex
        mode = self.choose(self.profile.get('advance_modes', [('grid', 3), ('deadline', 3),
                                                               ('long', 1)]))
        if mode == 'deadline':
            nd = ex.world.next_deadline()
            if nd is not None and nd >= ex.now:
                eps = d(st.sampled_from([-TICK, 0.0, TICK]))
                dt = max(0.0, (nd - ex.now) + eps)
                return {'op': 'advance', 'dt': dt}
            mode = 'grid'
        if mode == 'long':
            return {'op': 'advance', 'dt': float(d(st.sampled_from([1, 2, 3]))) * (ex.I + ex.T)}
        return {'op': 'advance', 'dt': d(st.sampled_from(
            [TICK, 0.25, 0.5, 1.0, ex.I / 2, ex.I, ex.T / 2, ex.T, ex.T + TICK, ex.I + ex.T]))}

    def a_request(self):
        d = self.draw
        i = self.session_index()
        if d(st.integers(0, 7)) == 0:
            # half-formed WebSocket requests (a proxy that strips hop-by-hop headers)
            q = d(st.sampled_from(['transport=websocket&EIO=4', 'transport=websocket&EIO=4&sid={sid}',
                                   'transport=polling&EIO=4&sid={sid}', 'transport=websocket&EIO=4&j=1']))
            h = d(st.sampled_from([[['Upgrade', 'websocket']], [['Upgrade', 'WebSocket']],
                                   [['Connection', 'Upgrade']],
                                   [['Upgrade', 'websocket'], ['Connection', 'keep-alive']]]))
            return {'op': 'request', 's': i, 'method': 'GET', 'query': q, 'headers': h}
        if d(st.integers(0, 11)) == 0:
            # an error answer long enough to be compressed, on plain and WebSocket requests
            a = {'op': 'request', 's': i,
                 'method': d(st.sampled_from(['GET', 'GET', 'GET', 'POST', 'PUT'])),
                 'query': 'transport=%s&EIO=4&sid=%s' % (
                     d(st.sampled_from(['polling', 'websocket'])), 'L' * 1100),
                 'headers': [['Accept-Encoding', d(st.sampled_from([
                     'gzip', 'deflate', 'gzip, deflate', 'GZIP', 'br, GZip', 'deflate;q=0.5']))]]}
            if a['method'] == 'GET' and d(st.booleans()):
                a['ws'] = True
            elif a['method'] == 'POST':
                a['body'] = rm.tag('4x')
            return a
        method = d(st.sampled_from(['GET', 'GET', 'POST', 'POST', 'OPTIONS', 'PUT', 'DELETE', 'HEAD',
                                    'PATCH']))
        sidv = d(st.sampled_from(['{sid}', '{sid}', '{sid}', '{sid}', '{sid}', '{sid}', 'nosuchsid',
                                  'nosuchsid', '', '', None, None,
                                  'L' * 1100]))      # (an error body over the compression threshold)
        parts = []
        tr = d(st.sampled_from(['polling', 'polling', 'websocket', None, 'bogus', 'Polling', '']))
        if tr is not None:
            parts.append('transport=' + tr)
        eio = d(st.sampled_from(['4', '4', '4', '3', '', None, '44', '4&EIO=4']))
        if eio is not None:
            parts.append('EIO=' + eio)
        if sidv is not None:
            parts.append('sid=' + sidv)
        j = d(st.sampled_from([None, None, None, '0', '7', 'x', '', '%C2%B2', '1%C2%B2', '%D9%A3',
                               '+1', '%201', '1_0', '-1', '1e3']))
        if j is not None:
            parts.append('j=' + j)
        if d(st.integers(0, 9)) == 0:
            parts.append(d(st.sampled_from(['%zz', '&&&', 'sid', '=', 'sid=%ff%fe', 't=1.5',
                                            'transport', 'EIO'])))
        if d(st.integers(0, 11)) == 0:
            parts += ['x%d=%d' % (k, k) for k in range(40)]     # a long list of other arguments
        a = {'op': 'request', 's': i, 'method': method, 'query': '&'.join(parts)}
        hdrs = []
        if d(st.integers(0, 5)) == 0:
            hdrs.append(['Origin', d(st.sampled_from(['http://localhost', 'http://evil.example',
                                                      '', 'http://b\u00fccher.example',
                                                      'http://\u2603.example']))])
        proxy = self.profile.get('proxy_headers', False)
        if proxy and d(st.integers(0, 4)) == 0:
            hdrs.append(['Host', d(st.sampled_from(['localhost', 'app.example.com:8080']))])
        if proxy and d(st.integers(0, 5)) == 0:
            # what a reverse proxy adds (with or without passing a Host header on)
            k = d(st.sampled_from(['proto', 'host', 'both']))
            if k in ('proto', 'both'):
                hdrs.append(['X-Forwarded-Proto', d(st.sampled_from(['https', 'https, http']))])
            if k in ('host', 'both'):
                hdrs.append(['X-Forwarded-Host', d(st.sampled_from(['public.example.org',
                                                                    'public.example.org, inner']))])
        if d(st.integers(0, 3)) == 0:
            hdrs.append(['Accept-Encoding', d(st.sampled_from([
                'gzip', 'deflate', 'br', 'GZIP', 'Deflate', 'gzip;q=0.5', 'br, GZip', 'deflate, gzip',
                '*', 'identity', '']))])
        if d(st.integers(0, 7)) == 0:
            # (echoed into Access-Control-Allow-Headers)
            hdrs.append(['Access-Control-Request-Headers',
                         d(st.sampled_from(['x-a', 'x-auth-\u2603', 'content-type, x-\u00e9',
                                            '\U0001f600']))])
        if d(st.integers(0, 7)) == 0:
            hdrs.append(['Upgrade', d(st.sampled_from(['websocket', 'h2c', 'WebSocket']))])
            if d(st.booleans()):
                hdrs.append(['Connection', 'Upgrade'])
        if method in ('POST', 'PUT', 'PATCH') or d(st.integers(0, 9)) == 0:
            body = d(st.sampled_from([
                '4hello', '', '4a\x1e4b', '1', '6', '7', '9x', 'x', '\x1e', '4a\x1e', 'bAQ', 'b!!',
                '4' + '[' * 300, '4' + '9' * 400, '\x1e' * 40, 'd=4a', 'd=', 'd=%ff', '٣', '4é',
                '2', '3', '5', '0{}', '4{"a":', 'b' + 'A' * 50]))
            a['body'] = rm.tag(body)
            cl = d(st.sampled_from([None, None, None, None, '0', '3', '100000000', '-1', 'abc',
                                    '']))
            if cl is not None:
                a['content_length'] = cl
            if d(st.integers(0, 9)) == 0:
                a['body'] = rm.tag(d(st.sampled_from([b'\xff\xfe4a', b'4\xc3', b'\x00'])))
        if hdrs:
            a['headers'] = hdrs
        if d(st.integers(0, 11)) == 0 and method == 'GET':
            a['ws'] = True
        return a
