"""Reference models written from the property statements and the Engine.IO v4 protocol
description, not from the code under test (DESIGN.md 2.5)."""
import base64
import json
import math

SEP = '\x1e'
MESSAGE = 4


# ---------------------------------------------------------------------------------------------
# structural equality that treats NaN == NaN and distinguishes bool/int/float like JSON does
# ---------------------------------------------------------------------------------------------
def jeq(a, b):
    if isinstance(a, float) and isinstance(b, float):
        return (math.isnan(a) and math.isnan(b)) or a == b
    if isinstance(a, bool) or isinstance(b, bool):
        return isinstance(a, bool) and isinstance(b, bool) and a == b
    if isinstance(a, (int, float)) and isinstance(b, (int, float)):
        return type(a) is type(b) and a == b
    if isinstance(a, dict) and isinstance(b, dict):
        return a.keys() == b.keys() and all(jeq(a[k], b[k]) for k in a)
    if isinstance(a, list) and isinstance(b, list):
        return len(a) == len(b) and all(jeq(x, y) for x, y in zip(a, b))
    if isinstance(a, (bytes, bytearray)) and isinstance(b, (bytes, bytearray)):
        return bytes(a) == bytes(b)
    return type(a) is type(b) and a == b


def tag(v):
    """JSON-able tagged form of a payload (for replay files / evidence samples)."""
    if v is None:
        return {'t': 'none'}
    if isinstance(v, (bytes, bytearray)):
        return {'t': 'bytearray' if isinstance(v, bytearray) else 'bytes',
                'v': base64.b64encode(bytes(v)).decode()}
    if isinstance(v, str):
        return {'t': 'text', 'v': v}
    return {'t': 'json', 'v': json.dumps(v)}


class UserList(list):
    """What an application may well pass to send(): a list subclass."""


def untag(d):
    t = d['t']
    if t == 'none':
        return None
    if t == 'bytes':
        return base64.b64decode(d['v'])
    if t == 'bytearray':
        return bytearray(base64.b64decode(d['v']))
    if t == 'text':
        return d['v']
    if t == 'odict':
        import collections
        return collections.OrderedDict(json.loads(d['v']))      # a dict subclass instance
    if t == 'ulist':
        return UserList(json.loads(d['v']))                     # a list subclass instance
    if t == 'unjson':
        # a value json.dumps() cannot serialise (what a connect handler may well return)
        return {'error': 'banned', 'until': {1}}
    return json.loads(d['v'])


# ---------------------------------------------------------------------------------------------
# packet codec
# ---------------------------------------------------------------------------------------------
def is_binary(data):
    return isinstance(data, (bytes, bytearray))


def ref_encode_check(ptype, data, b64, got):
    """Return None if `got` is an acceptable v4 encoding, else a reason string."""
    if is_binary(data):
        if b64:
            want = 'b' + base64.b64encode(bytes(data)).decode('ascii')
            if not isinstance(got, str) or got != want:
                return 'text-channel form of binary must be %r' % want[:60]
        else:
            if not isinstance(got, (bytes, bytearray)) or bytes(got) != bytes(data):
                return 'binary-channel form of binary must be the raw bytes'
        return None
    if not isinstance(got, str):
        return 'non-binary packet must encode to str, got %s' % type(got).__name__
    if not got or got[0] != str(ptype):
        return 'first character must be the type digit %d' % ptype
    rest = got[1:]
    if data is None:
        return None if rest == '' else 'absent payload must encode to the bare type digit'
    if isinstance(data, str):
        return None if rest == data else 'text payload must follow the type digit verbatim'
    # container: compact JSON of an equal value, any key order, either ensure_ascii setting
    try:
        val = json.loads(rest)
    except ValueError as e:
        return 'container payload is not JSON: %s' % e
    if not jeq(val, data):
        return 'JSON payload parses to a different value'
    compact = (json.dumps(val, separators=(',', ':'), ensure_ascii=True),
               json.dumps(val, separators=(',', ':'), ensure_ascii=False))
    if rest not in compact:
        return 'JSON payload is not in compact form'
    return None


def ref_encode(ptype, data, b64=True):
    """The (one) canonical encoding used to build reference payloads."""
    if is_binary(data):
        return ('b' + base64.b64encode(bytes(data)).decode('ascii')) if b64 else bytes(data)
    s = str(ptype)
    if data is None:
        return s
    if isinstance(data, str):
        return s + data
    return s + json.dumps(data, separators=(',', ':'))


_AMBIG = ('NaN', 'Infinity', '-Infinity')


def ref_decode_text_payload(text):
    """Allowed decoded values (a list; usually one) for the text after the type digit."""
    if text == '':
        return ['']
    try:
        v = json.loads(text)
    except (ValueError, RecursionError):
        return [text]
    if isinstance(v, bool) or isinstance(v, int):
        return [text]
    if text.strip() in _AMBIG:
        return [text, v]            # not JSON literals in the strict sense: either reading
    return [v]


def contains_big_int(v):
    if isinstance(v, bool):
        return False
    if isinstance(v, int):
        return len(str(v)) > 100
    if isinstance(v, dict):
        return any(contains_big_int(x) for x in v.values())
    if isinstance(v, list):
        return any(contains_big_int(x) for x in v)
    return False


def text_has_big_int(text):
    """True if the JSON text holds an integer literal of more than 100 characters (the
    documented parse guard then refuses the whole literal)."""
    try:
        json.loads(text, parse_int=_guard)
    except _Big:
        return True
    except (ValueError, RecursionError):
        return False
    return False


class _Big(Exception):
    pass


def _guard(s):
    if len(s) > 100:
        raise _Big()
    return int(s)


def ref_decode_packet(enc):
    """-> ('ok', type, [allowed payloads], binary) | ('invalid', reason) | ('open', why)."""
    if isinstance(enc, (bytes, bytearray)):
        return ('ok', MESSAGE, [bytes(enc)], True)
    if enc == '':
        return ('invalid', 'empty packet')
    c = enc[0]
    if c == 'b':
        body = enc[1:]
        try:
            raw = base64.b64decode(body, validate=True)
        except Exception:
            return ('open', 'malformed base64')
        return ('ok', MESSAGE, [raw], True)
    if c in '0123456789':
        rest = enc[1:]
        try:
            json.loads(rest)
        except RecursionError:
            return ('open', 'JSON nesting deeper than the interpreter allows')
        except ValueError:
            pass
        allowed = ref_decode_text_payload(rest)
        if text_has_big_int(rest) and rest not in allowed:
            allowed = [rest] + allowed      # the documented 100-digit guard may refuse it
        return ('ok', int(c), allowed, False)
    if ord(c) < 128:
        return ('invalid', 'first character is not a type digit')
    return ('open', 'non-ASCII first character')


# ---------------------------------------------------------------------------------------------
# payload (body) codec
# ---------------------------------------------------------------------------------------------
MAX_PACKETS = 16


def ref_decode_body(text, limit=MAX_PACKETS):
    """Reference reading of a polling body (str).
    -> ('ok', [(type, [allowed payloads], binary)]) | ('invalid', why) | ('open', why)"""
    import urllib.parse
    if text == '':
        return ('ok', [])
    if text.startswith('d='):
        try:
            vals = urllib.parse.parse_qs(text, keep_blank_values=False).get('d')
        except ValueError as e:
            return ('invalid', 'form decoding failed: %s' % e)
        if not vals:
            return ('invalid', 'form body without a d value')
        text = vals[0]
    pieces = text.split(SEP)
    if len(pieces) > limit:
        return ('invalid', 'more than %d packets' % limit)
    out = []
    open_why = None
    for p in pieces:
        r = ref_decode_packet(p)
        if r[0] == 'invalid':
            return ('invalid', r[1])
        if r[0] == 'open':
            open_why = r[1]
            continue
        out.append((r[1], r[2], r[3]))
    if open_why:
        return ('open', open_why)
    return ('ok', out)


# ---------------------------------------------------------------------------------------------
# JavaScript string literals (ECMAScript 2019+) and the JSONP envelope
# ---------------------------------------------------------------------------------------------
class JsSyntaxError(Exception):
    pass


_SINGLE = {'b': '\b', 'f': '\f', 'n': '\n', 'r': '\r', 't': '\t', 'v': '\v', '0': '\0'}
_LINE_TERMINATORS = '\n\r  '
_HEX = '0123456789abcdefABCDEF'


def js_string_literal(src, pos):
    """Evaluate the double-quoted JS string literal starting at src[pos] == '"'.
    Returns (value, index after the closing quote). Raises JsSyntaxError."""
    if pos >= len(src) or src[pos] != '"':
        raise JsSyntaxError('string literal expected at %d' % pos)
    units = []          # UTF-16 code units

    def put(ch):
        o = ord(ch)
        if o >= 0x10000:
            o -= 0x10000
            units.append(0xD800 + (o >> 10))
            units.append(0xDC00 + (o & 0x3FF))
        else:
            units.append(o)

    i = pos + 1
    n = len(src)
    while True:
        if i >= n:
            raise JsSyntaxError('unterminated string literal')
        c = src[i]
        if c == '"':
            i += 1
            break
        if c in '\n\r':
            raise JsSyntaxError('line terminator inside string literal at %d' % i)
        if c != '\\':
            put(c)
            i += 1
            continue
        i += 1
        if i >= n:
            raise JsSyntaxError('unterminated escape')
        e = src[i]
        if e in _LINE_TERMINATORS:           # line continuation
            if e == '\r' and i + 1 < n and src[i + 1] == '\n':
                i += 1
            i += 1
            continue
        if e == 'x':
            h = src[i + 1:i + 3]
            if len(h) != 2 or any(ch not in _HEX for ch in h):
                raise JsSyntaxError('bad \\x escape')
            units.append(int(h, 16))
            i += 3
            continue
        if e == 'u':
            if src[i + 1:i + 2] == '{':
                j = src.find('}', i + 2)
                h = src[i + 2:j] if j > 0 else ''
                if not h or any(ch not in _HEX for ch in h) or int(h, 16) > 0x10FFFF:
                    raise JsSyntaxError('bad \\u{} escape')
                put(chr(int(h, 16))) if not 0xD800 <= int(h, 16) <= 0xDFFF \
                    else units.append(int(h, 16))
                i = j + 1
                continue
            h = src[i + 1:i + 5]
            if len(h) != 4 or any(ch not in _HEX for ch in h):
                raise JsSyntaxError('bad \\u escape')
            units.append(int(h, 16))
            i += 5
            continue
        if e == '0':
            if src[i + 1:i + 2] and src[i + 1] in '0123456789':
                raise JsSyntaxError('octal escape')     # sloppy-mode legacy, not relied upon
            units.append(0)
            i += 1
            continue
        if e in '123456789':
            raise JsSyntaxError('octal / decimal escape')
        if e in _SINGLE:
            units.append(ord(_SINGLE[e]))
            i += 1
            continue
        put(e)                                # NonEscapeCharacter: itself
        i += 1
    raw = b''.join(u.to_bytes(2, 'little') for u in units)
    return raw.decode('utf-16-le', 'surrogatepass'), i


def utf16_equal(a, b):
    """String equality as JavaScript sees it (UTF-16 code units)."""
    return a.encode('utf-16-le', 'surrogatepass') == b.encode('utf-16-le', 'surrogatepass')


def parse_jsonp(body):
    """body must be exactly  ___eio[<digits>]("<string literal>");  -> (index, value)."""
    import re
    m = re.match(r'___eio\[(-?\d+)\]\(', body)
    if not m:
        raise JsSyntaxError('body does not start with ___eio[<index>](')
    value, end = js_string_literal(body, m.end())
    if body[end:] != ');':
        raise JsSyntaxError('text after the string literal is %r, not ");"' % body[end:end + 20])
    return int(m.group(1)), value
