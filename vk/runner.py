"""Runner: sharding, seeds, known findings, replay files, evidence (DESIGN.md 2.7-2.9).

A property module (props/cNN.py) exposes

    ID            'C01'
    LEVEL         evidence level, normally 'exploration'
    RULE          text: how cases are generated and what makes one non-trivial
    ASSUMPTIONS   list of strings (trusted base)
    def run_shard(ctx)          generate + check; report through ctx
    def replay(case, ctx)       run one stored case; raise Violation if it (still) fails

Exit codes of ./check: 0 held (possibly with KNOWN-FINDING lines), 1 VIOLATION, 2 harness error.
"""
import hashlib
import importlib
import json
import os
import shutil
import subprocess
import sys
import tempfile
import time
import traceback

VERIF = os.path.dirname(os.path.dirname(os.path.abspath(__file__)))
REPO = os.environ.get('VERIF_REPO', '/repo')
NSHARDS = int(os.environ.get('VERIF_SHARDS', '16'))


class Violation(Exception):
    """An oracle failure. `clause` names the part of the property that failed, `trigger` the
    class of history/input that made it fail (never sids, times or seeds), `impl` the
    implementation under test."""

    def __init__(self, prop, impl, clause, trigger, detail, case=None):
        self.prop, self.impl, self.clause, self.trigger = prop, impl, clause, trigger
        self.detail, self.case = detail, case
        super().__init__(self.signature + ': ' + str(detail))

    @property
    def signature(self):
        return '|'.join([self.prop, self.impl, self.clause, self.trigger])


class HarnessError(Exception):
    pass


class BudgetExhausted(KeyboardInterrupt):
    """Stops a Hypothesis run at once (not an Exception: Hypothesis lets it through unshrunk)."""


def setup_path():
    src = os.path.join(REPO, 'src')
    if not os.path.isdir(os.path.join(src, 'engineio')):
        raise HarnessError('no engineio sources under %s' % src)
    if src in sys.path:
        sys.path.remove(src)
    sys.path.insert(0, src)
    if VERIF not in sys.path:
        sys.path.insert(1, VERIF)
    import engineio
    got = os.path.realpath(os.path.dirname(engineio.__file__))
    want = os.path.realpath(os.path.join(src, 'engineio'))
    if got != want:
        raise HarnessError('engineio imported from %s, wanted %s' % (got, want))


def load_known():
    path = os.path.join(VERIF, 'known_findings.json')
    if not os.path.exists(path):
        return {'known': [], 'fixed': []}
    with open(path) as f:
        return json.load(f)


def canon(obj):
    return json.dumps(obj, sort_keys=True, default=repr, ensure_ascii=True)


def h64(obj):
    return hashlib.blake2b(canon(obj).encode(), digest_size=8).hexdigest()


class Ctx:
    """Per-shard context handed to property modules."""

    def __init__(self, prop, tier, seed, shard, nshards, known_sigs):
        self.prop, self.tier, self.base_seed = prop, tier, seed
        self.shard, self.nshards = shard, nshards
        self.seed = seed * 100003 + shard
        self.known = set(known_sigs)
        self.ignored = set()          # unknown signatures already reported this run
        self.evaluations = 0
        self.nontrivial = set()
        self.classes = {}
        self.samples = []
        self.known_hits = {}
        self.violations = []          # dicts
        self.avoided = 0
        self.notes = []
        self.inconclusive = False
        self.exhaustive = None
        self.t0 = time.time()
        self.budget_s = float(os.environ.get(
            'VERIF_BUDGET_S', '100' if tier == 'quick' else '1500'))
        self._last_fail = None

    # -- accounting -------------------------------------------------------------------------
    def case(self, rep, nontrivial, classes=(), sample_p=None):
        """Record one executed case. rep: JSON-able canonical form of the case."""
        self.evaluations += 1
        for c in classes:
            self.classes[c] = self.classes.get(c, 0) + 1
        if nontrivial:
            hv = h64(rep)
            if hv not in self.nontrivial:
                self.nontrivial.add(hv)
                if len(self.samples) < 3 or (len(self.samples) < 6 and
                                             int(hv, 16) % 997 == 0):
                    self.samples.append(rep)

    def count(self, cls, n=1):
        self.classes[cls] = self.classes.get(cls, 0) + n

    def over_budget(self):
        from . import watchdog
        if watchdog.STATE['tripped']:
            # a spinning library thread is still burning a core in this process: stop generating
            # (no shrinking either: every further case would cost the watchdog limit again)
            self.inconclusive = True
            return True
        if time.time() - self.t0 > self.budget_s:
            self.inconclusive = True
            return True
        return False

    # -- failures ---------------------------------------------------------------------------
    def is_known(self, v):
        return v.signature in self.known

    def note_known(self, v):
        self.known_hits[v.signature] = self.known_hits.get(v.signature, 0) + 1

    def add_violation(self, v, case=None):
        self.violations.append({'signature': v.signature, 'clause': v.clause,
                                'trigger': v.trigger, 'impl': v.impl,
                                'detail': str(v.detail)[:2000],
                                'case': case if case is not None else v.case,
                                'seed': self.seed})
        self.ignored.add(v.signature)

    def result(self):
        return {'evaluations': self.evaluations, 'nontrivial': sorted(self.nontrivial),
                'classes': self.classes, 'samples': self.samples[:6],
                'known_hits': self.known_hits, 'violations': self.violations,
                'avoided': self.avoided, 'notes': self.notes,
                'inconclusive': self.inconclusive, 'exhaustive': self.exhaustive,
                'wall_s': time.time() - self.t0}


# ---------------------------------------------------------------------------------------------
# Hypothesis driver: run `body(case)` over `strategy`; continue past known findings; collect
# several distinct unknown signatures; cap shrinking by wall clock.
# ---------------------------------------------------------------------------------------------

def run_given(ctx, strategy, body, max_examples, shrink_s=None, rounds=4, label=''):
    """body(value) -> None | raises Violation.  Returns nothing; reports through ctx."""
    import hypothesis
    from hypothesis import given, settings, seed, HealthCheck, Phase

    if shrink_s is None:
        shrink_s = 20 if ctx.tier == 'quick' else 120
    for rnd in range(rounds):
        state = {'first_fail_t': None, 'best': None, 'gave_up': False}

        def test(value):
            if ctx.over_budget() and state['best'] is None:
                raise BudgetExhausted()
            from . import watchdog
            if watchdog.STATE['tripped'] and state['best'] is not None:
                state['gave_up'] = True      # no shrinking against a spinning library
                raise BudgetExhausted()
            if state['first_fail_t'] is not None and \
                    time.time() - state['first_fail_t'] > shrink_s:
                state['gave_up'] = True
                raise BudgetExhausted()     # stop shrinking: the best failure so far is kept
            try:
                body(value)
            except Violation as v:
                if v.signature in ctx.known:
                    ctx.note_known(v)
                    return
                if v.signature in ctx.ignored:
                    return
                if state['first_fail_t'] is None:
                    state['first_fail_t'] = time.time()
                state['best'] = v
                raise

        test = seed(ctx.seed + 7919 * rnd)(settings(
            max_examples=max_examples, deadline=None, database=None, derandomize=False,
            report_multiple_bugs=False, print_blob=False,
            suppress_health_check=list(HealthCheck),
            phases=[Phase.generate, Phase.shrink])(given(strategy)(test)))
        try:
            test()
        except BudgetExhausted:
            pass
        except Violation:
            pass
        except hypothesis.errors.Flaky:
            if state['best'] is None:
                raise
        except BaseException:
            if state['best'] is None:
                raise
        if state['best'] is None:
            return
        ctx.add_violation(state['best'])
        if ctx.over_budget():
            return


# ---------------------------------------------------------------------------------------------
# main / shard entry points
# ---------------------------------------------------------------------------------------------

def load_prop(pid):
    return importlib.import_module('props.' + pid.lower())


def shard_main(pid, tier, seed, shard, nshards, out):
    res = {'harness_error': None}
    try:
        setup_path()
        mod = load_prop(pid)
        known = [k['signature'] for k in load_known()['known'] if k['property'] == pid]
        ctx = Ctx(pid, tier, seed, shard, nshards, known)
        mod.run_shard(ctx)
        res.update(ctx.result())
    except BaseException:
        res['harness_error'] = traceback.format_exc()
    with open(out, 'w') as f:
        json.dump(res, f, default=repr)
    os._exit(0)       # do not wait for abandoned daemon threads


def write_replay(pid, viol):
    d = os.path.join(os.environ.get('VERIF_FOUND_DIR') or os.path.join(VERIF, 'replays'), pid,
                     'found')
    os.makedirs(d, exist_ok=True)
    name = '%s-%s.json' % (h64(viol['signature']), viol['seed'])
    path = os.path.join(d, name)
    doc = {'property': pid, 'signature': viol['signature'], 'seed': viol['seed'],
           'impl': viol['impl'], 'case': viol['case'],
           'violation': {'clause': viol['clause'], 'trigger': viol['trigger'],
                         'detail': viol['detail']}}
    with open(path, 'w') as f:
        json.dump(doc, f, indent=1, default=repr)
    return path


def replay_file(pid, path, ctx=None):
    """Run one replay file. Returns None if the case passes, else the Violation."""
    setup_path()
    mod = load_prop(pid)
    with open(path) as f:
        doc = json.load(f)
    if ctx is None:
        ctx = Ctx(pid, 'quick', 0, 0, 1, [])
    try:
        mod.replay(doc['case'], ctx)
    except Violation as v:
        return v
    return None


def main(argv):
    import argparse
    ap = argparse.ArgumentParser()
    ap.add_argument('pid')
    ap.add_argument('--tier', default=os.environ.get('VERIF_TIER', 'quick'),
                    choices=['quick', 'thorough'])
    ap.add_argument('--replay')
    ap.add_argument('--shard', type=int)
    ap.add_argument('--nshards', type=int, default=NSHARDS)
    ap.add_argument('--out')
    ap.add_argument('--seed', type=int, default=int(os.environ.get('VERIF_SEED', '1') or 1))
    a = ap.parse_args(argv)
    pid = a.pid.upper()

    if a.shard is not None:
        shard_main(pid, a.tier, a.seed, a.shard, a.nshards, a.out)
        return 0

    try:
        setup_path()
        mod = load_prop(pid)
    except Exception:
        traceback.print_exc()
        print('HARNESS-ERROR property=%s cannot load' % pid)
        return 2

    if a.replay:
        return replay_main(pid, a.replay)

    t0 = time.time()
    kf = load_known()
    known = {k['signature']: k for k in kf['known'] if k['property'] == pid}
    fixed = [k for k in kf['fixed'] if k['property'] == pid]
    exit_code = 0
    out_lines = []
    violations = []       # (signature, path)
    known_seen = {}

    # 1. regression tier: committed replays of known / fixed findings
    reg = {'fixed_checked': 0, 'known_checked': 0}
    for k in fixed:
        if not k.get('replay'):
            continue
        p = os.path.join(VERIF, k['replay'])
        try:
            v = replay_file(pid, p, Ctx(pid, 'quick', 0, 0, 1, list(known)))
        except Exception:
            traceback.print_exc()
            print('HARNESS-ERROR property=%s replay %s crashed' % (pid, p))
            return 2
        reg['fixed_checked'] += 1
        if v is not None and v.signature in known:
            known_seen[v.signature] = known_seen.get(v.signature, 0) + 1
        elif v is not None:
            violations.append((v.signature, p, 'regression of fixed finding: ' + str(v.detail)))
    for sig, k in known.items():
        if not k.get('replay'):
            continue
        p = os.path.join(VERIF, k['replay'])
        try:
            v = replay_file(pid, p)
        except Exception:
            traceback.print_exc()
            print('HARNESS-ERROR property=%s replay %s crashed' % (pid, p))
            return 2
        reg['known_checked'] += 1
        if v is not None and v.signature == sig:
            known_seen[sig] = known_seen.get(sig, 0) + 1
        elif v is not None:
            violations.append((v.signature, p, str(v.detail)))

    # 2. generated search, sharded
    tmp = tempfile.mkdtemp(prefix='verif-%s-' % pid)
    procs = []
    env = dict(os.environ, PYTHONHASHSEED='0', VERIF_REPO=REPO)
    check = os.path.join(VERIF, 'check')
    try:
        for i in range(a.nshards):
            out = os.path.join(tmp, 'shard%d.json' % i)
            log = open(os.path.join(tmp, 'shard%d.log' % i), 'w')
            procs.append((i, out, log, subprocess.Popen(
                [sys.executable, check, pid, '--tier', a.tier, '--seed', str(a.seed),
                 '--shard', str(i), '--nshards', str(a.nshards), '--out', out],
                env=env, stdout=log, stderr=subprocess.STDOUT, cwd=VERIF)))
        results = []
        hard = float(os.environ.get('VERIF_HARD_S', '900' if a.tier == 'quick' else '7200'))
        for i, out, log, p in procs:
            try:
                p.wait(timeout=max(1, hard - (time.time() - t0)))
            except subprocess.TimeoutExpired:
                p.kill()
                p.wait()
            log.close()
            if os.path.exists(out):
                with open(out) as f:
                    results.append(json.load(f))
            else:
                with open(log.name) as f:
                    tail = f.read()[-3000:]
                results.append({'harness_error': 'shard %d produced no result (rc=%s)\n%s'
                                % (i, p.returncode, tail)})
    finally:
        for _, _, _, p in procs:
            if p.poll() is None:
                p.kill()
        shutil.rmtree(tmp, ignore_errors=True)

    herr = [r['harness_error'] for r in results if r.get('harness_error')]
    if herr:
        print(herr[0])
        print('HARNESS-ERROR property=%s %d shard(s) failed' % (pid, len(herr)))
        return 2

    evaluations = sum(r['evaluations'] for r in results)
    nontrivial = set()
    classes = {}
    samples = []
    avoided = 0
    notes = []
    for r in results:
        nontrivial.update(r['nontrivial'])
        for c, n in r['classes'].items():
            classes[c] = classes.get(c, 0) + n
        for s in r['samples']:
            if len(samples) < 8:
                samples.append(s)
        for s, n in r['known_hits'].items():
            known_seen[s] = known_seen.get(s, 0) + n
        avoided += r.get('avoided', 0)
        notes += r.get('notes', [])
        for v in r['violations']:
            if v['signature'] in known:
                known_seen[v['signature']] = known_seen.get(v['signature'], 0) + 1
                continue
            if any(v['signature'] == s for s, _, _ in violations):
                continue
            path = write_replay(pid, v)
            violations.append((v['signature'], path, v['detail']))
    inconclusive = sum(1 for r in results if r.get('inconclusive'))
    exhaustive = all(r.get('exhaustive') for r in results) if results else False

    for sig, n in sorted(known_seen.items()):
        k = known.get(sig)
        print('KNOWN-FINDING: property=%s %s [%s] (hit %d times)' % (
            pid, k['description'] if k else sig, sig, n))
    for sig, path, detail in violations:
        print('VIOLATION property=%s replay=%s' % (pid, os.path.relpath(path, VERIF)))
        print('  signature: %s' % sig)
        print('  detail: %s' % str(detail)[:600])
        exit_code = 1

    ev = {
        'property_id': pid, 'tier': a.tier, 'seed': a.seed,
        'level': getattr(mod, 'LEVEL', 'exploration'),
        'coverage': {
            'evaluations': evaluations,
            'distinct_nontrivial': len(nontrivial),
            'rule': mod.RULE,
            'samples': samples,
            'classes': dict(sorted(classes.items())),
            'known_finding_hits': known_seen,
            'cases_steered_around_known_findings': avoided,
            'regression_replays': reg,
            'shards': len(results),
            'shards_stopped_by_budget': inconclusive,
            'exhaustive': bool(exhaustive),
            'notes': sorted(set(notes))[:20],
        },
        'assumptions': list(getattr(mod, 'ASSUMPTIONS', [])),
        'wall_s': round(time.time() - t0, 2),
        'violations': len(violations),
    }
    evdir = os.environ.get('VERIF_EVIDENCE_DIR') or os.path.join(VERIF, 'evidence')
    os.makedirs(evdir, exist_ok=True)
    with open(os.path.join(evdir, pid + '.json'), 'w') as f:
        json.dump(ev, f, indent=1, default=repr, sort_keys=True)
    print('%s %s: %d cases, %d distinct non-trivial, %d known-finding hits, %d violation(s), '
          '%.1fs%s' % (pid, a.tier, evaluations, len(nontrivial), sum(known_seen.values()),
                       len(violations), time.time() - t0,
                       ' (%d shard(s) stopped by budget)' % inconclusive if inconclusive else ''))
    return exit_code


def replay_main(pid, path):
    try:
        v = replay_file(pid, path)
    except Exception:
        traceback.print_exc()
        print('HARNESS-ERROR property=%s replay crashed' % pid)
        return 2
    if v is None:
        print('replay %s: property held' % path)
        return 0
    kf = load_known()
    for k in kf['known']:
        if k['property'] == pid and k['signature'] == v.signature:
            print('KNOWN-FINDING: property=%s %s [%s]' % (pid, k['description'], v.signature))
            return 0
    print('VIOLATION property=%s replay=%s' % (pid, path))
    print('  signature: %s' % v.signature)
    print('  detail: %s' % str(v.detail)[:1000])
    return 1
