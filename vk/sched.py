"""Baton scheduler for the threaded code (DESIGN.md 2.2): real OS threads, exactly one of which
runs at any time; blocking points are virtual; time is virtual."""
import collections
import sys
import threading

threading.stack_size(512 * 1024)


class VThreadKilled(BaseException):
    pass


class VT:
    """A scheduled thread."""
    _n = 0

    def __init__(self, sched, fn, name):
        VT._n += 1
        self.id = VT._n
        self.sched, self.fn, self.name = sched, fn, name
        self.sem = threading.Semaphore(0)
        self.state = 'new'            # new | runnable | blocked | done
        self.pred = None
        self.deadline = None
        self.woke_by_pred = True
        self.kill = False
        self.exc = None
        self.os = None
        self.what = ''                # description of the current blocking point

    def __repr__(self):
        return '<VT %d %s %s %s>' % (self.id, self.name, self.state, self.what)


class Sched:
    def __init__(self, clock):
        self.clock = clock
        self.threads = []
        self.current = None
        self.main_sem = threading.Semaphore(0)
        self.switches = 0
        self.by_ident = {}
        # preemptive mode (DESIGN.md 2.2): scheduled threads are traced; the n-th line executed
        # inside the library since arm() was called is a switching point if n is in `points`
        self.jitter = 0.0         # every timed wait expires this much late
        self.trace_on = False
        self.trace_match = '/engineio/'
        self.points = []
        self.lines = 0
        self.preemptions = 0

    def arm(self, points):
        self.points = sorted(int(p) for p in (points or []))
        self.lines = 0

    def _tracer(self, frame, event, arg):
        if event == 'call' and self.trace_match in frame.f_code.co_filename:
            return self._local
        return None

    def _local(self, frame, event, arg):
        if event == 'line' and self.points:
            self.lines += 1
            if self.lines >= self.points[0]:
                self.points.pop(0)
                t = self.by_ident.get(threading.get_ident())
                if t is not None and t is self.current and not t.kill:
                    self.preemptions += 1
                    t.state = 'runnable'
                    t.preempted = True
                    self._switch_out(t)
        return self._local

    # -- called from the scheduler (harness) thread ----------------------------------------
    def spawn(self, fn, name='t'):
        t = VT(self, fn, name)
        self.threads.append(t)
        return t

    def _bootstrap(self, t):
        t.sem.acquire()
        self.by_ident[threading.get_ident()] = t
        if self.trace_on:
            sys.settrace(self._tracer)
        try:
            if not t.kill:
                t.fn()
        except VThreadKilled:
            pass
        except BaseException as e:      # noqa
            t.exc = e
        finally:
            t.state = 'done'
            self.by_ident.pop(threading.get_ident(), None)
            self.main_sem.release()

    def _run(self, t):
        """Give the baton to t until it blocks, yields or finishes."""
        self.current = t
        self.switches += 1
        if t.state == 'new':
            t.state = 'running'
            t.os = threading.Thread(target=self._bootstrap, args=(t,), daemon=True)
            t.os.start()
        else:
            t.state = 'running'
        t.sem.release()
        self.main_sem.acquire()
        self.current = None

    def runnable(self):
        out = []
        for t in self.threads:
            if t.state in ('new', 'runnable'):
                out.append(t)
            elif t.state == 'blocked' and t.pred is not None and t.pred():
                out.append(t)
        return out

    def settle(self, pick=None, limit=50000):
        """Run until every thread is blocked or done. pick(list)->index chooses who runs."""
        n = 0
        while True:
            r = self.runnable()
            if not r:
                break
            i = pick(r) if (pick is not None and len(r) > 1) else 0
            t = r[i]
            if getattr(t, 'preempted', False) and len(r) > 1:
                # a thread that was just switched out at a line lets another one run first
                t.preempted = False
                t = [x for x in r if x is not t][0]
            if t.state == 'blocked':
                t.woke_by_pred = True
            self._run(t)
            n += 1
            if n > limit:
                raise RuntimeError('scheduler livelock (no virtual time passes): %r' % (r,))
        self.threads = [t for t in self.threads if t.state != 'done']

    def next_deadline(self):
        ds = [t.deadline for t in self.threads if t.state == 'blocked' and t.deadline is not None]
        return min(ds) if ds else None

    def advance(self, dt, pick=None):
        self.advance_to(self.clock.now + dt, pick)

    def advance_to(self, target, pick=None):
        self.settle(pick)
        while True:
            d = self.next_deadline()
            if d is None or d > target:
                break
            self.clock.now = max(self.clock.now, d)
            due = [t for t in self.threads if t.state == 'blocked' and t.deadline is not None
                   and t.deadline <= self.clock.now]
            for t in due:
                # timed out (unless its predicate has become true meanwhile)
                if t.pred is not None and t.pred():
                    continue
                t.woke_by_pred = False
                t.state = 'runnable'
            self.settle(pick)
        self.clock.now = max(self.clock.now, target)

    def blocked_forever(self):
        """Threads blocked without a deadline whose predicate is false (after settle)."""
        return [t for t in self.threads if t.state == 'blocked' and t.deadline is None]

    def kill_all(self, rounds=6):
        for _ in range(rounds):
            live = [t for t in self.threads if t.state in ('blocked', 'runnable', 'new')]
            if not live:
                break
            for t in live:
                t.kill = True
                if t.state == 'new':
                    t.state = 'done'
                    continue
                self._run(t)
            self.threads = [t for t in self.threads if t.state != 'done']
        left = len(self.threads)
        self.threads = []
        return left

    # -- called from scheduled threads -----------------------------------------------------
    def me(self):
        t = self.by_ident.get(threading.get_ident())
        if t is None:
            raise RuntimeError('blocking primitive used outside a scheduled thread')
        return t

    def _switch_out(self, t):
        self.main_sem.release()
        t.sem.acquire()
        if t.kill:
            raise VThreadKilled()

    def block(self, pred, timeout=None, what=''):
        """Block the calling thread until pred() or the virtual timeout. -> True if pred."""
        t = self.me()
        if pred():
            return True
        if timeout is not None and timeout <= 0:
            return False
        t.pred = pred
        t.deadline = None if timeout is None else self.clock.now + timeout + self.jitter
        t.what = what
        t.state = 'blocked'
        self._switch_out(t)
        t.pred, t.deadline, t.what = None, None, ''
        return t.woke_by_pred

    def yield_(self):
        t = self.me()
        t.state = 'runnable'
        self._switch_out(t)


# ---------------------------------------------------------------------------------------------
# primitives handed to engineio through the fake async driver
# ---------------------------------------------------------------------------------------------
class Empty(Exception):
    pass


_sched = None


def set_sched(s):
    global _sched
    _sched = s


def get_sched():
    return _sched


class Full(Exception):
    pass


class VQueue:
    def __init__(self, maxsize=0):
        self.items = collections.deque()
        self.unfinished_tasks = 0
        self.maxsize = maxsize or 0
        self.s = _sched

    def put(self, item, block=True, timeout=None):
        if self.maxsize > 0 and len(self.items) >= self.maxsize:
            # a bounded queue.Queue: put() waits for room
            if not block or not self.s.block(lambda: len(self.items) < self.maxsize, timeout,
                                             'queue.put'):
                raise Full()
        self.items.append(item)
        self.unfinished_tasks += 1

    def put_nowait(self, item):
        self.put(item)

    def get(self, block=True, timeout=None):
        if not self.items:
            if not block:
                raise Empty()
            if not self.s.block(lambda: bool(self.items), timeout, 'queue.get'):
                raise Empty()
        return self.items.popleft()

    def get_nowait(self):
        return self.get(block=False)

    def task_done(self):
        if self.unfinished_tasks <= 0:
            raise ValueError('task_done() called too many times')
        self.unfinished_tasks -= 1

    def join(self):
        self.s.block(lambda: self.unfinished_tasks == 0, None, 'queue.join')

    def empty(self):
        return not self.items

    def qsize(self):
        return len(self.items)


class VEvent:
    def __init__(self):
        self.flag = False
        self.s = _sched

    def set(self):
        self.flag = True

    def clear(self):
        self.flag = False

    def is_set(self):
        return self.flag

    def wait(self, timeout=None):
        return self.s.block(lambda: self.flag, timeout, 'event.wait')


class VThread:
    """threading.Thread look-alike (the driver's 'thread' entry)."""

    def __init__(self, target=None, args=(), kwargs=None, daemon=None, name=None):
        self.target, self.args, self.kwargs = target, args, kwargs or {}
        self.vt = None
        self.s = _sched
        self.name = name or getattr(target, '__name__', 'thread')

    def start(self):
        self.vt = self.s.spawn(lambda: self.target(*self.args, **self.kwargs), self.name)

    def join(self, timeout=None):
        if self.vt is None:
            raise RuntimeError('cannot join thread before it is started')
        if self.vt is self.s.me():
            raise RuntimeError('cannot join current thread')
        self.s.block(lambda: self.vt.state == 'done', timeout, 'thread.join')

    def is_alive(self):
        return self.vt is not None and self.vt.state != 'done'


def vsleep(seconds=0):
    if seconds <= 0:
        _sched.yield_()
    else:
        _sched.block(lambda: False, seconds, 'sleep')
