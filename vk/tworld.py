"""Threaded world: the real Server + WSGIApp under the baton scheduler (DESIGN.md 2.2/2.4)."""
import sys
import types

from . import clock as vclock
from . import sched as vsched
from .aworld import AppLog, SilentLogger, patch_secrets
from .gw import Req, WsConn, Call, check_wsgi_start, check_wsgi_body


class WsFault(OSError):
    pass


class VWebSocketWSGI:
    """WSGI-side WebSocket wrapper with the contract of SimpleWebSocketWSGI / eventlet's
    WebSocketWSGI: wait() -> str|bytes frame, None once the peer has closed; send() raises
    OSError once closed; close()."""

    def __init__(self, handler, server, **kwargs):
        self.handler = handler
        self.conn = None

    def __call__(self, environ, start_response):
        self.conn = environ['verif.ws']
        if getattr(self.conn, 'fail_accept', False):
            # the peer went away before the handshake response could be written
            self.conn.failed = True
            raise OSError('peer gone during the WebSocket handshake (scripted)')
        self.conn.accepted = True
        self.s = vsched.get_sched()
        return self.handler(self)

    def wait(self):
        c = self.conn
        ok = self.s.block(lambda: bool(c.inbox) or c.peer_closed or c.failed or c.server_closed,
                          c.read_timeout, 'ws.wait')
        if not ok:
            raise TimeoutError('websocket read timed out')
        if c.inbox:
            f = c.inbox.pop(0)
            c.handshake_seen.append(f)
            return f
        if c.failed:
            raise WsFault('injected transport fault')
        if c.peer_closed:
            return None
        # closed locally while waiting: simple_websocket raises ConnectionClosed -> None
        return None

    def send(self, message):
        c = self.conn
        from .gw import write_error
        if c.server_closed or c.peer_closed or c.failed:
            raise write_error(c, 'websocket is closed')
        if getattr(c, 'fail_next_send', 0):
            c.fail_next_send -= 1       # one write fails, the connection itself survives
            c.soft_failed_at = c.world.clock.now
            raise write_error(c, 'write failed (scripted, transient)')
        if not isinstance(message, (str, bytes, bytearray)):
            c.contract.append('ws.send of %s' % type(message).__name__)
        c.sent.append((c.world.clock.now, bytes(message) if isinstance(message, bytearray)
                       else message))

    def close(self):
        c = self.conn
        if not c.server_closed:
            c.server_closed = True
            c.t_closed = c.world.clock.now


def install_driver():
    m = types.ModuleType('engineio.async_drivers.verif')
    m._async = {
        'thread': vsched.VThread,
        'queue': vsched.VQueue,
        'queue_empty': vsched.Empty,
        'event': vsched.VEvent,
        'websocket': VWebSocketWSGI,
        'sleep': vsched.vsleep,
    }
    sys.modules['engineio.async_drivers.verif'] = m
    import engineio.async_drivers
    engineio.async_drivers.verif = m


class RecordingInput:
    def __init__(self, req, body):
        self.req, self.body, self.pos = req, body, 0

    def read(self, n=-1):
        self.req.reads.append(n)
        if n is None or n < 0:
            out = self.body[self.pos:]
            self.pos = len(self.body)
        else:
            out = self.body[self.pos:self.pos + n]
            self.pos += len(out)
        return out

    def readline(self, *a):
        self.req.reads.append('readline')
        return self.read()


class TWorld:
    impl = 'thread'

    def __init__(self, config=None, coroutine_handlers=False, app_kwargs=None, ws_read_timeout=False,
                 legacy_disconnect=False, clock=None, sched=None, handler_delay=None,
                 preempt=False, timer_jitter=0.0, handler_style=None, farewell=False):
        import engineio
        self.clock = clock or vclock.reset()
        vclock.patch_engineio_time()
        self.rand = patch_secrets()
        install_driver()
        self.sched = sched or vsched.Sched(self.clock)
        vsched.set_sched(self.sched)
        self.sched.trace_on = bool(preempt)
        self.sched.jitter = float(timer_jitter or 0.0)

        class VServer(engineio.Server):
            def async_modes(self):
                return ['verif']

        cfg = dict(config or {})
        cfg.setdefault('logger', SilentLogger())
        self.config = cfg
        self.server = VServer(async_mode='verif', **cfg)
        self.app_log = AppLog(self)
        self.app_log.delay = dict(handler_delay or {})
        self.app_log.farewell = bool(farewell)
        self.app_log.install(self.server, False, legacy_disconnect, sleep=vsched.vsleep,
                             style=handler_style)
        self.app = engineio.WSGIApp(self.server, **(app_kwargs or {}))
        self.ws_read_timeout = ws_read_timeout
        self.reqs, self.conns, self.calls = [], [], []
        self.pick = None

    # -- time ------------------------------------------------------------------------------
    def _guarded(self, fn, *a):
        from . import watchdog
        try:
            with watchdog.guard():
                return fn(*a)
        except watchdog.BusyLoop:
            self.poisoned = True        # a thread spins with the baton: nothing can run any more
            raise

    def settle(self, pick=None):
        self._guarded(self.sched.settle, pick or self.pick)

    def advance(self, dt):
        self._guarded(self.sched.advance, dt, self.pick)

    def advance_to(self, t):
        self._guarded(self.sched.advance_to, t, self.pick)

    def next_deadline(self):
        return self.sched.next_deadline()

    # -- http --------------------------------------------------------------------------------
    def _environ(self, method, path, query, headers, scheme):
        env = {
            'REQUEST_METHOD': method, 'SCRIPT_NAME': '', 'PATH_INFO': path,
            'QUERY_STRING': query, 'SERVER_NAME': 'localhost', 'SERVER_PORT': '80',
            'SERVER_PROTOCOL': 'HTTP/1.1', 'REMOTE_ADDR': '127.0.0.1',
            'wsgi.version': (1, 0), 'wsgi.url_scheme': scheme, 'wsgi.errors': sys.stderr,
            'wsgi.multithread': True, 'wsgi.multiprocess': False, 'wsgi.run_once': False,
        }
        for k, v in headers:
            try:
                v.encode('ascii')
            except UnicodeEncodeError:
                # PEP 3333: header bytes (here UTF-8) presented as a latin-1 decoded str
                v = v.encode('utf-8').decode('latin-1')
            key = k.upper().replace('-', '_')
            if key in ('CONTENT_LENGTH', 'CONTENT_TYPE'):
                env[key] = v
            else:
                key = 'HTTP_' + key
                env[key] = (env[key] + ',' + v) if key in env else v
        return env

    def http(self, method, query, headers=(), body=b'', declared=None, chunks=1,
             path='/engine.io/', scheme='http', early_disconnect=False):
        if declared is None and (body or method == 'POST'):
            declared = len(body)
        hdrs = list(headers)
        undeclared = declared == 'absent'       # a body sent without Content-Length (chunked)
        if undeclared:
            declared = None
        if declared is not None:
            hdrs.append(('Content-Length', str(declared)))
        req = Req(self, method, path, query, hdrs, body, declared)
        env = self._environ(method, path, query, hdrs, scheme)
        env['wsgi.input'] = RecordingInput(req, body)
        if undeclared:
            env['wsgi.input_terminated'] = True     # (what gunicorn / werkzeug set then)

        def start_response(status, headers, exc_info=None):
            check_wsgi_start(req, status, headers, exc_info)
            req.status_line = status
            try:
                req.status = int(str(status)[:3])
            except ValueError:
                pass
            try:
                req.resp_headers = [(str(h[0]), str(h[1])) for h in headers]
            except Exception:
                pass
            return lambda data: req.contract.append('write() callable used')

        def run():
            try:
                ret = self.app(env, start_response)
                req.resp_body = check_wsgi_body(req, ret)
                if req.start_calls == 0:
                    req.contract.append('start_response never called')
            except vsched.VThreadKilled:
                raise
            except BaseException as e:     # noqa
                req.exc = e
            finally:
                req.done = True
                req.t_end = self.clock.now

        req._vt = self.sched.spawn(run, 'http-%s' % method)
        self.reqs.append(req)
        return req

    def client_gone(self, req):
        pass        # a WSGI worker cannot observe a vanished client while blocked

    # -- websocket ----------------------------------------------------------------------------
    def ws_open(self, query, headers=(), path='/engine.io/', scheme='http', upgrade_hdrs=None,
                fail_accept=False):
        # (a WSGI gateway with WebSocket support can upgrade any GET the application decides to
        # upgrade: upgrade_hdrs gives the Upgrade/Connection headers the client actually sent)
        conn = WsConn(self, query, list(headers))
        conn.fail_accept = fail_accept
        if self.ws_read_timeout:
            conn.read_timeout = self.server.ping_interval + self.server.ping_timeout
        hdrs = list(headers) + (list(upgrade_hdrs) if upgrade_hdrs is not None else
                                [('Upgrade', 'websocket'), ('Connection', 'Upgrade')])
        env = self._environ('GET', path, query, hdrs, scheme)
        env['verif.ws'] = conn
        env['wsgi.input'] = RecordingInput(Req(self, 'GET', path, query, hdrs, b'', None), b'')

        def start_response(status, headers, exc_info=None):
            # a plain HTTP answer instead of a WebSocket handshake = refusal
            conn.http_status = int(str(status)[:3])
            conn.resp_headers = list(headers)
            if not conn.accepted:
                conn.rejected = True
            return lambda data: None

        def run():
            try:
                ret = self.app(env, start_response)
                if conn.http_status is not None:
                    try:
                        conn.resp_body = b''.join(ret)
                    except Exception:
                        pass
            except vsched.VThreadKilled:
                raise
            except BaseException as e:     # noqa
                conn.exc = e
            finally:
                conn.done = True
                conn.t_end = self.clock.now
                if not conn.server_closed:
                    # the gateway closes the socket when the handler returns
                    conn.server_closed = True
                    conn.t_closed = self.clock.now

        conn._vt = self.sched.spawn(run, 'ws')
        self.conns.append(conn)
        return conn

    def ws_client_send(self, conn, frame):
        conn.inbox.append(frame)

    def ws_client_close(self, conn):
        conn.peer_closed = True

    def ws_fail(self, conn, exc=None):
        conn.failed = True
        conn.fail_exc = exc

    def ws_fail_next_send(self, conn):
        conn.fail_next_send = getattr(conn, 'fail_next_send', 0) + 1

    # -- application API ------------------------------------------------------------------------
    def call(self, name, *args):
        c = Call(self, name, args)

        def run():
            try:
                r = getattr(self.server, name)(*args)
                c.result = dict(r) if isinstance(r, dict) else r     # value at return time
            except vsched.VThreadKilled:
                raise
            except BaseException as e:   # noqa
                c.exc = e
            finally:
                c.done = True
                c.t_end = self.clock.now

        c._vt = self.sched.spawn(run, 'call-' + name)
        self.calls.append(c)
        return c

    def session_ctx(self, sid, key, value):
        c = Call(self, 'session', (sid, key, value))

        def run():
            try:
                with self.server.session(sid) as s:
                    c.result = dict(s)
                    if key is not None:
                        s[key] = value
            except vsched.VThreadKilled:
                raise
            except BaseException as e:   # noqa
                c.exc = e
            finally:
                c.done = True
                c.t_end = self.clock.now

        c._vt = self.sched.spawn(run, 'call-session')
        self.calls.append(c)
        return c

    def table(self):
        return dict(self.server.sockets)

    def teardown(self):
        if getattr(self, 'poisoned', False):
            self.sched.threads = []
            return
        try:
            if self.server.service_task_event is not None:
                self.server.service_task_event.set()
            for c in self.conns:
                c.peer_closed = True
            self.sched.settle()
        except BaseException:
            pass
        try:
            self.sched.kill_all()
        except BaseException:
            pass
