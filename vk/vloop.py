"""Virtual-time asyncio event loop (DESIGN.md 2.3)."""
import asyncio
import logging
import warnings

logging.getLogger('asyncio').setLevel(logging.CRITICAL)
warnings.filterwarnings('ignore', category=RuntimeWarning, message='.*never awaited.*')
warnings.filterwarnings('ignore', category=ResourceWarning)


class _StubSelector:
    def __init__(self, loop):
        self.loop = loop

    def select(self, timeout=None):
        lp = self.loop
        lp._spins += 1
        if lp._spins > 2000000:
            raise RuntimeError('VLoop livelock: %d select calls in one run' % lp._spins)
        if timeout is not None and timeout <= 0:
            return []
        if timeout is None:
            # nothing ready, no timer: idle
            lp._idle = True
            lp.stop()
            return []
        nxt = lp._clock.now + timeout
        if lp._scheduled:
            # use the exact deadline of the next timer, not now+timeout (float exactness)
            nxt = max(lp._clock.now, min(h._when for h in lp._scheduled[:1]))
        if nxt > lp._horizon:
            lp._clock.now = max(lp._clock.now, lp._horizon)
            lp._idle = True
            lp.stop()
            return []
        lp._clock.now = max(lp._clock.now, nxt)
        return []

    def close(self):
        pass


class VLoop(asyncio.BaseEventLoop):
    def __init__(self, clock):
        super().__init__()
        self._clock = clock
        self._clock_resolution = 2.0 ** -32    # one ulp in [2^20, 2^21)
        self._selector = _StubSelector(self)
        self._horizon = clock.now
        self._idle = False
        self._spins = 0
        self.errors = []          # unhandled task exceptions etc.
        self.jitter = 0.0         # every timer fires this much late (real timers never fire early
                                  # or exactly on time)
        self.set_exception_handler(self._on_error)

    def call_at(self, when, callback, *args, context=None):
        return super().call_at(when + self.jitter, callback, *args, context=context)

    def _on_error(self, loop, context):
        exc = context.get('exception')
        msg = context.get('message', '')
        if 'was destroyed but it is pending' in msg:
            return
        self.errors.append((msg, repr(exc)))

    def time(self):
        return self._clock.now

    def _process_events(self, event_list):
        pass

    def _write_to_self(self):
        pass

    def run_until_idle(self, advance=0.0):
        """Run until nothing is ready and no timer is due before now+advance; then now is
        exactly start+advance."""
        self.run_until(self._clock.now + advance)

    def run_until(self, target):
        self._horizon = max(target, self._clock.now)
        self._idle = False
        self._spins = 0
        # make sure the loop goes through select at least once
        self.run_forever()
        while not self._idle:      # stop() called by somebody else
            self.run_forever()
        self._clock.now = max(self._clock.now, self._horizon)

    def next_timer(self):
        live = [h._when for h in self._scheduled if not h._cancelled]
        return min(live) if live else None
