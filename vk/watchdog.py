"""Wall-clock watchdog for one kernel operation (settle / advance): library code that spins in a
pure-Python loop never gives the baton back (threaded world) or never yields to the loop (asyncio
world); the virtual clock cannot see that. SIGALRM interrupts the harness thread - also while it
waits for the baton - and the operation ends with BusyLoop. The spinning OS thread cannot be
stopped: the world is then poisoned (torn down without running anything) and the shard stops
generating."""
import contextlib
import os
import signal
import threading

LIMIT_S = float(os.environ.get('VERIF_BUSY_LIMIT_S', '90'))
STATE = {'tripped': False}


class BusyLoop(RuntimeError):
    """No progress for LIMIT_S wall-clock seconds inside one kernel operation."""


def _handler(signum, frame):
    STATE['tripped'] = True
    raise BusyLoop('no progress for %.0f s of wall-clock time inside one kernel operation '
                   '(library code is spinning)' % LIMIT_S)


@contextlib.contextmanager
def guard():
    if threading.current_thread() is not threading.main_thread():
        yield
        return
    old = signal.signal(signal.SIGALRM, _handler)
    # (repeating: when the spinning code is on this very thread - asyncio world - it may swallow
    # the exception and spin on)
    signal.setitimer(signal.ITIMER_REAL, LIMIT_S, 5.0)
    try:
        yield
    finally:
        signal.setitimer(signal.ITIMER_REAL, 0)
        signal.signal(signal.SIGALRM, old)


_installed = [False]


def arm(limit_s=None):
    """Cheap form for tight loops over pure code: (re)start the timer; disarm() stops it. The
    handler is installed once per process (main thread only)."""
    if threading.current_thread() is not threading.main_thread():
        return
    if not _installed[0]:
        signal.signal(signal.SIGALRM, _handler)
        _installed[0] = True
    signal.setitimer(signal.ITIMER_REAL, limit_s or LIMIT_S)


def disarm():
    if _installed[0] and threading.current_thread() is threading.main_thread():
        signal.setitimer(signal.ITIMER_REAL, 0)


def run_case(body, make_violation):
    """Run body(); a trip of the watchdog during it - also one the library swallowed - becomes
    the violation make_violation(message)."""
    before = STATE['tripped']
    try:
        body()
    except BusyLoop as e:
        raise make_violation(str(e))
    if STATE['tripped'] and not before:
        raise make_violation('the watchdog fired during this case (library code was spinning; '
                             'the exception was absorbed by the library)')
